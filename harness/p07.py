"""C07 — Poisson and excitation models minimise their documented objective; all agree in gamut."""
import numpy as np
from fractions import Fraction
from common import F, rs, vs, ms, dyadic, close, call, parse_rat, as_given
from systems import apply_K
from fitlib import gen_wellscaled, gen_target, K_text, ub_text


def level_rows_float(Ap, bp, b, t):
    G, h = [], []
    for r, bc, b0 in zip(Ap, b, bp):
        k = t * (1 + bc)
        G.append(-(1 + k) * r); h.append(k - bc + (1 + k) * b0)
        G.append((1 - k) * r); h.append(k + bc - (1 - k) * b0)
    return np.array(G), np.array(h)


def farkas_hint(Ap, bp, b, t, lb, ub):
    """untrusted multipliers showing that level t is unreachable: min s  s.t. G x - s <= h, box"""
    from scipy.optimize import linprog
    G, h = level_rows_float(Ap, bp, b, t)
    m, n = G.shape
    c = np.zeros(n + 1); c[-1] = 1.0
    A_ub = np.hstack([G, -np.ones((m, 1))])
    bounds = [(float(l), None if not np.isfinite(u) else float(u)) for l, u in zip(lb, ub)] + [(None, None)]
    res = linprog(c, A_ub=A_ub, b_ub=h, bounds=bounds, method="highs")
    if res.status != 0 or res.x[-1] <= 0:
        return None
    lam = np.maximum(-np.asarray(res.ineqlin.marginals), 0.0)
    if not np.all(np.isfinite(ub)):
        # sources without upper bound: the combined row lam.G must be >= 0 there EXACTLY or the certified bound is -infinity.
        # Repair the (untrusted) float multipliers in exact arithmetic by raising the multiplier of one row with a positive entry.
        tq = F(float(t))
        Gq = []
        for r, bc in zip(Ap, b):
            kq = tq * (1 + F(float(bc)))
            Gq.append([-(1 + kq) * F(float(v)) for v in r]); Gq.append([(1 - kq) * F(float(v)) for v in r])
        lq = [F(float(v)) for v in lam]
        for j in range(n):
            if np.isfinite(ub[j]):
                continue
            cj = sum(l * g[j] for l, g in zip(lq, Gq))
            if cj < 0:
                i_best = max(range(m), key=lambda i: Gq[i][j])
                if Gq[i_best][j] <= 0:
                    return lam
                lq[i_best] += -cj / Gq[i_best][j]
        return [v for v in lq]
    return lam


def lower_level_witness(Ap, bp, b, lb, ub, t_impl):
    """untrusted search for an in-bound point whose excitation difference is below t_impl: bisection on the level t over the linear
    feasibility problems G(t) x <= h(t) (level_rows_float), box. Returns an in-bound point (clipped) or None; its objective is
    evaluated exactly by the model afterwards (op excdoc), the search itself is not trusted."""
    from scipy.optimize import linprog
    n = Ap.shape[1]
    bounds = [(float(l), None if not np.isfinite(u) else float(u)) for l, u in zip(lb, ub)]

    def feasible(t):
        G, h = level_rows_float(Ap, bp, b, t)
        try:
            res = linprog(np.zeros(n), A_ub=G, b_ub=h, bounds=bounds, method="highs")
        except Exception:  # noqa: BLE001
            return None
        return np.clip(res.x, lb, ub) if res.status == 0 else None

    lo, hi, best = 0.0, float(t_impl), None
    for _ in range(40):
        mid = (lo + hi) / 2
        x = feasible(mid)
        if x is None:
            lo = mid
        else:
            hi, best = mid, x
    return best


def poisson_better_point(Ap, bp, w, b, lb, ub, xh):
    """untrusted search (L-BFGS-B on the smooth convex negative log-likelihood, several starts) for an in-bound point with a lower weighted
    Poisson negative log-likelihood than xh. Returns an in-bound float vector or None; how much better it is, is decided exactly by the model
    (op poistan: tangent inequality at that point, theorem poisson_tangent_x)."""
    from scipy.optimize import minimize
    Ap = np.asarray(Ap, dtype=float); bp = np.asarray(bp, dtype=float)
    ubf = np.where(np.isfinite(ub), ub, np.maximum(lb, 0) + 50.0)

    def nll(x):
        p = Ap @ x + bp
        if np.any(p <= 0):
            return np.inf
        return float(np.sum(w * (p - b * np.log(p))))
    best, fbest = None, np.inf
    starts = [np.clip(xh, lb, ubf), (lb + ubf) / 2, lb + 0.25 * (ubf - lb), lb + 0.75 * (ubf - lb)]
    for x0 in starts:
        try:
            res = minimize(nll, x0, method="L-BFGS-B", bounds=[(float(l), None if not np.isfinite(u) else float(u)) for l, u in zip(lb, ub)])
        except Exception:  # noqa: BLE001
            continue
        z = np.clip(res.x, lb, ub)
        fz = nll(z)
        if np.isfinite(fz) and fz < fbest:
            best, fbest = z, fz
    return best


# the limit on solver iterations a caller may pass through the documented **opt_kwargs (CLARABEL's name for it). dreye's contract: a solve
# that stopped at its limit is retried with the fallback solver when the caller left the choice of solver to the library, and otherwise ends
# in RuntimeError('Optimization did not converge.') - a fit that RETURNS is judged by the ordinary certificates.
ITER_LIMITS = [1, 2, 3, 4, 6, 8, 12]
# NOT judged (kept for reference, see the report of the round-5 strengthening): solver='SCS' with max_iters=k. SCS reports an iterate that
# stopped at its iteration limit as 'optimal_inaccurate', which dreye accepts: on the unchanged tree lsq_linear(..., model='poisson',
# solver='SCS', max_iters=1) returns intensities far from the minimum without any error.
JUDGE_SCS_ITERATION_LIMIT = False


def wfold(M, w):
    """exact diag(w) M (channel weights folded into capture matrix / baseline / target, the way K is)"""
    M = np.asarray(M)
    if M.ndim == 1:
        return [F(v) * F(wi) for v, wi in zip(M, w)]
    return [[F(v) * F(wi) for v in row] for row, wi in zip(M, w)]


def gen_whole(rng, nf, ns, base_kinds=("zero", "scalar", "vector")):
    """well-scaled system (regime of gen_wellscaled: extent 1..100, cond <= 1e3, A' >= 0) whose data are all whole numbers, as in
    photon counting: captures per unit intensity, baseline, adaptation gains and bounds are integers, so that whole-number
    intensities give whole-number targets that a caller may store in an integer array"""
    for _ in range(500):
        A = rng.integers(0, 4, size=(nf, ns)).astype(float)
        for s_ in range(ns):
            A[(s_ * 7 + 1) % nf, s_] += float(rng.integers(1, 4))
        if np.linalg.matrix_rank(A) != min(nf, ns) or not np.all(A.sum(0) > 0):
            continue
        kk = str(rng.choice(["none", "scalar", "vector"]))
        K = None if kk == "none" else (np.array([float(rng.integers(1, 3))]) if kk == "scalar" else rng.integers(1, 3, size=nf).astype(float))
        bk = str(rng.choice(list(base_kinds)))
        base = np.array([0.0]) if bk == "zero" else (np.array([float(rng.integers(1, 4))]) if bk == "scalar" else rng.integers(0, 4, size=nf).astype(float))
        if bk == "vector" and not np.any(base > 0):
            base[rng.integers(nf)] = 1.0
        ubk = str(rng.choice(["finite", "finite", "inf"])); lbk = str(rng.choice(["zero", "zero", "pos"]))
        lb = np.zeros(ns) if lbk == "zero" else rng.integers(0, 2, size=ns).astype(float)
        ub = lb + rng.integers(2, 6, size=ns).astype(float) if ubk == "finite" else np.full(ns, np.inf)
        Ap, bp = apply_K(A, K, base)
        cond = np.linalg.cond(Ap)
        ubf = np.where(np.isfinite(ub), ub, 10.0)
        ext = (np.abs(Ap) * (ubf - lb)).sum(axis=1)
        if cond <= 1e3 and np.all(ext >= 1) and np.all(ext <= 100):
            return dict(nf=nf, ns=ns, A=A, K=K, K_kind=kk, baseline=base, baseline_kind=bk, lb=lb, ub=ub, ub_kind=ubk, lb_kind=lbk,
                        Ap=Ap, bp=bp, cond=float(cond), whole=True)
    raise RuntimeError("no well-scaled whole-number system found")


def gen_target_whole(rng, S, kind):
    """whole-number target of the requested class (the classes of fitlib.gen_target)"""
    lb, ub, Ap, bp, ns, nf = S["lb"], S["ub"], S["Ap"], S["bp"], S["ns"], S["nf"]
    ubf = np.where(np.isfinite(ub), ub, lb + 4.0)
    x = lb + np.array([float(rng.integers(1, int(w))) for w in (ubf - lb)])     # whole, strictly between the bounds
    if kind == "inside":
        return Ap @ x + bp
    if kind == "boundary":
        m = rng.random(ns) < 0.5
        m[rng.integers(ns)] = True
        x = np.where(m, np.where(rng.random(ns) < 0.5, lb, ubf), x)
        return Ap @ x + bp
    if kind == "outside":
        b = Ap @ x + bp
        f = rng.integers(1, 5, size=nf).astype(float)
        f[rng.integers(nf)] = 4.0
        return np.clip(b * f + 1.0, 1.0, 100.0)
    raise ValueError(kind)


def gen_target_corner(tr, S, floor):
    """an out-of-gamut target NEXT to the brightest (all sources at ub) or darkest (all at lb) corner of the gamut: the corner's capture with one
    receptor pushed outward by 25 / 50 % (A' >= 0: no in-bound intensities reach it) and another pulled inward by 25 / 50 %. The two receptors
    pull the sources in opposite directions, so the minimiser is a trade-off that depends on the weights (unlike a far-away target, whose
    minimiser is the corner whatever the weights). Exactly representable; None when the system has a single receptor or no usable corner."""
    lb, ub, Ap, bp, nf = S["lb"], S["ub"], S["Ap"], S["bp"], S["nf"]
    if nf < 2:
        return None
    lo = Ap @ lb + bp
    can_lo = bool(np.any(lo * 0.5 >= floor))
    can_hi = bool(np.all(np.isfinite(ub)))
    if not (can_lo or can_hi):
        return None
    hi_corner = can_hi and (not can_lo or tr.random() < 0.7)
    d1, d2 = float(tr.choice([0.25, 0.5])), float(tr.choice([0.25, 0.5]))
    if hi_corner:
        b = Ap @ ub + bp
        a_ = int(tr.integers(nf)); b_ = int((a_ + 1 + tr.integers(nf - 1)) % nf)
        b[a_] *= 1 + d1; b[b_] *= 1 - d2
    else:
        b = lo.copy()
        a_ = int(tr.choice(np.flatnonzero(lo * 0.5 >= floor))); b_ = int((a_ + 1 + tr.integers(nf - 1)) % nf)
        b[a_] *= 1 - d1; b[b_] = b[b_] * (1 + d2) + 0.25
    return np.clip(b, floor, 100.0)


def run(R):
    import dreye
    from dreye.api.optimize.lsq_linear import lsq_linear, lsq_linear_excitation
    nsys = 8 if R.tier == "quick" else 150
    R.rule = ("well-scaled systems with non-negative A (1-4 receptors x 1-6 sources), targets >= 0, baseline zero / non-zero, "
              "K none/scalar/vector, finite and default bounds; targets inside, on the boundary and outside the gamut; weights for "
              "Poisson. Poisson: the logarithm-free gradient gap g.x - min_box g.z is evaluated exactly in Q at dreye's answer "
              "(theorem poisson_gap_bound => near-optimal against every in-bound point). Excitation: the documented objective "
              "max|e(b)-e(p)| is evaluated exactly at dreye's answer and level t-eps is certified unreachable by LP multipliers "
              "checked with the verified linLower (theorem level_infeasible_of_cert); eps = 1e-2 in excitation units is the accuracy of "
              "dreye's default engine (SCS inside the quasi-convex bisection: observed worst 3.2e-3, CLARABEL reaches 2e-7). In-gamut targets: all three models must "
              "reproduce them. Every fourth system has whole-number data (photon counts) and its targets reach dreye as an integer "
              "array or a list of ints; the other arguments come in a randomly chosen legitimate representation (integer dtype when "
              "whole, Fortran order, strided view, list; the model gets the values). Every fourth system combines channel weights with a "
              "non-zero baseline, in capture units where the smallest channel extent is in [1,2) (excitation far from saturation). For these, for whole-number systems and half of the other systems with weights the excitation model is fitted a second time WITH the weights on a sub-batch (one "
              "inside, one outside and one more target, in an order of its own: in-gamut rows first / last / interleaved; through lsq_linear_excitation(W=) or through the estimator: "
              "register_targets(B, W) [per-sample weights] or constructor w + register_targets(B) [channel weights], then fit(model='excitation') without a target): in-gamut targets must be reproduced and their documented objective must be at "
              "its minimum 0 (within eps x max(w,1/w)); every row that is not in gamut must be minimal for ITS OWN row of weights on the weighted captures (model: weights folded "
              "into captures, baseline and target like K): certified by a level certificate, or refuted by an in-bound point evaluated exactly by the model "
              "(reported as model/implementation disagreement: the weighted form of the objective is the implementation's, it is not spelt out in the documentation). "
              "Iteration limit: three quarters of the systems get one more Poisson fit of the whole batch with max_iter = 1..12 passed through **opt_kwargs, the solver "
              "left to the library or chosen explicitly (CLARABEL): the fit either raises (RuntimeError 'did not converge' / SolverError: loud, fine) or returns, and a returned answer is judged by the "
              "ordinary certificates of the objective (Poisson gap at the ordinary threshold, bounds, prediction; reproduction of in-gamut targets to the default-settings accuracy is recorded only). A Poisson answer that is not certified is refuted when an in-bound point z is exhibited whose "
              "negative log-likelihood is lower by more than the granted 2e-2 x scale, bounded exactly by the tangent inequality at z (theorem poisson_tangent_x): predicate failure with z as witness. "
              "The performance option batch_size of all fits of a system is drawn from {1, 2, 3, 4 (zero-padded last group), 'full'}: the five "
              "targets are then solved jointly in groups; the certificates (gap, level certificate, in-gamut reproduction) judge each returned "
              "row on its own against that row's objective, however it was computed (a group's objective is the sum of its rows' objectives "
              "over disjoint variables - proved for the stacked least-squares form in Dreye.ExtrasA.stacked_objective_sum - so the rows of a "
              "correct joint solve are row-wise optimal); counted: joint groups whose relative baseline K*baseline / bounds differ between receptors / sources. "
              "Weights come as channel weights (one vector), as per-sample importance weights (a samples x receptors matrix whose rows differ: "
              "about half of the weighted systems; every row's gap / level certificate uses that row's weights) or as the documented W='inverse' "
              "(1/B; a quarter of the systems otherwise without weights). History: before the judged fits the same process has fitted the system "
              "with another adaptation state and, for 60% of the systems, has run a quick preview of the excitation model with non-default "
              "bisection options (eps, low/high bracket, max_iters, max_iters_interval_search) and of the Poisson model with loose CLARABEL "
              "tolerances; the judged fits pass no options and must meet the ordinary certificates. When an excitation answer is not certified, an "
              "in-bound point with a lower objective is searched (LP bisection, untrusted) and evaluated exactly by the model: better by more "
              "than eps => the answer is not a global minimiser (predicate failure with that point as witness). "
              "Targets relative to the dark capture: for systems with a non-zero baseline the first outside target is (always when weights and baseline are combined, else 60 %) the light-induced capture of a "
              "corner of the gamut (all sources at ub / at lb) plus theta_c x K*baseline with theta_c in {0, 1/4, 1/2, 1, 3/2, 2} per receptor (not all 1): between the extreme light-induced and the extreme total capture; "
              "judged for optimality like every target not known to be in gamut. Finely sampled sequences: one (thorough: three) series of 112..144 slowly varying targets (frames of an intensity ramp, 0.055..0.107 % per frame, "
              "8..12 % in total; in gamut, or pushed out of it by a fixed factor per receptor; captures of order one) is fitted in ONE call by each model (solver=CLARABEL); the first, the last and four random frames are judged "
              "exactly like the rows of the small batches - every frame is a target of its own, whatever its neighbours are. "
              "Dark channel: for 60 % of the systems with two or more receptors (not with W='inverse') one receptor of the second outside target is exactly 0 "
              "(boundary value of targets >= 0; a receptor every source excites, preferably one whose K*baseline is 0 too: both boundary values at once), judged for optimality like every target not known to be in gamut. "
              "Non-trivial: target outside the gamut or on its boundary, or baseline non-zero.")
    KINDS = ["inside", "inside", "boundary", "outside", "outside"]
    rows = []
    n_solver_err = [0]
    for si in range(nsys):
        k = "s%d" % si
        if not R.want(k):
            continue
        kinds = KINDS
        rng = R.rng(1, si)
        FLOOR = 1.0 if si % 4 == 3 else 0.125
        whole = (si % 4 == 3)    # whole-number data (photon counts): targets reach dreye in an integer array
        both = (si % 4 == 1)     # option combination: channel weights together with a non-zero baseline
        nf_, ns_ = int(rng.integers(1, 5)), int(rng.integers(1, 7))
        if whole:
            S = gen_whole(rng, nf_, ns_)
            B = np.array([np.maximum(gen_target_whole(rng, S, kd), 1.0) for kd in kinds])
        else:
            S = gen_wellscaled(rng, nf=nf_, ns=ns_, K_kinds=("none", "scalar", "vector"), ub_kinds=("finite", "finite", "inf"), lb_kinds=("zero", "zero", "pos"),
                               **(dict(base_kinds=("scalar", "vector")) if both else {}))
            if both:
                # captures of order one (as relative captures around the adaptation point are): the capture unit is chosen so that
                # the smallest channel extent lies in [1, 2) - still in the regime, and far from the saturation of e = q/(1+q), where
                # the excitation objective barely depends on the captures. Division by a power of two is exact.
                ubf_ = np.where(np.isfinite(S["ub"]), S["ub"], 10.0)
                j_ = int(np.floor(np.log2(float(np.min((np.abs(S["Ap"]) * (ubf_ - S["lb"])).sum(axis=1))))))
                if j_ > 0:
                    S["A"] = S["A"] / 2.0 ** j_; S["Ap"] = S["Ap"] / 2.0 ** j_
                R.count("captures-of-order-one")
            B = np.array([np.maximum(gen_target(rng, S, kd), 0.125) for kd in kinds])
            # the second outside target (own random stream; always for the systems with captures of order one, else every second system): next
            # to a corner of the gamut, with two receptors pulling in opposite directions - its minimiser depends on the weights
            tr = R.rng(10, si)
            if both or tr.random() < 0.5:
                bc_ = gen_target_corner(tr, S, 0.125)
                if bc_ is not None:
                    B[4] = bc_
                    kinds = kinds[:4] + ["outside-corner"]
        # the first outside target (own random stream; systems with a non-zero baseline: always when weights and baseline are combined, else 60 %):
        # the capture of a corner of the gamut - all sources at ub (finite bounds) or all at lb - with the dark capture K*baseline counted a different
        # number of times in every receptor: light-induced capture of the corner + theta_c x baseline', theta_c in {0, 1/4, 1/2, 1, 3/2, 2} ({0, 1, 2} for
        # whole-number data), not all 1. Such targets lie between 'the brightest / darkest light-induced capture' and 'the brightest / darkest TOTAL
        # capture': both objectives are documented on the total capture. Judged like every target that is not known to be in gamut (optimality only).
        cr = R.rng(12, si)
        if np.any(S["bp"] != 0) and (both or cr.random() < 0.6):
            hi_ = bool(np.all(np.isfinite(S["ub"]))) and cr.random() < 0.7
            th_ = cr.choice([0.0, 1.0, 2.0] if whole else [0.0, 0.25, 0.5, 1.0, 1.5, 2.0], size=S["nf"])
            nzb_ = np.flatnonzero(S["bp"] != 0)
            if np.all(th_[nzb_] == 1.0):
                th_[int(cr.choice(nzb_))] = float(cr.choice([0.0, 2.0] if whole else [0.0, 0.5]))
            B[3] = np.clip(S["Ap"] @ (S["ub"] if hi_ else S["lb"]) + th_ * S["bp"], FLOOR, 100.0)
            kinds = list(kinds); kinds[3] = "corner+baseline-multiples"
            R.count("first-outside-target:%s corner + baseline multiples" % ("bright" if hi_ else "dark"))
            R.count("first-outside-target:bright corner, every receptor >= light-induced all-on capture, some < total all-on capture:%s"
                    % bool(hi_ and np.any(B[3] < S["Ap"] @ S["ub"] + S["bp"])))
        else:
            R.count("first-outside-target:outside")
        R.count("second-outside-target:%s" % kinds[4])
        nf, ns = S["nf"], S["ns"]
        ingamut = [kd in ("inside", "boundary") and bool(np.all(B[i] > FLOOR)) for i, kd in enumerate(kinds)]    # not raised to the floor
        wk = "vector" if both else str(rng.choice(["none", "vector"]))
        W = None if wk == "none" else (rng.integers(1, 3, size=nf).astype(float) if whole else dyadic(rng, 0.5, 2, 2, size=nf))
        # per-sample importance weights (own random stream: systems, targets and channel weights are those of the runs without this
        # variant): W of shape (samples, receptors) whose rows differ - each target is then fitted with ITS row of weights and every
        # certificate below uses that row. Row 0 keeps the channel weights drawn above; row 1 is made to differ from row 0.
        # A quarter of the systems without weights asks for W='inverse' instead (documented: W = 1 / B, per-sample by construction).
        wr = R.rng(6, si)
        if W is not None and (si % 8 == 1 or wr.random() < 0.5):
            wk = "matrix"
            W = np.array([W] + [(wr.integers(1, 4, size=nf).astype(float) if whole else dyadic(wr, 0.5, 2, 2, size=nf)) for _ in range(len(B) - 1)])
            if np.array_equal(W[1], W[0]):
                j_ = int(wr.integers(nf)); W[1, j_] = 2.0 if W[0, j_] != 2.0 else 1.0
        elif W is None and wr.random() < 0.25:
            wk = "inverse"
        # a dark channel (own random stream): the property quantifies over targets >= 0, and an exact 0 - a receptor that is to stay dark -
        # is the boundary value that the positive floor above never produces. For 60 % of the systems with two or more receptors (not with
        # W='inverse', which is 1/B) one receptor of the second outside target is set to exactly 0; the receptor is one that every source
        # excites (A' > 0 in its row: the predicted capture stays positive whenever any light is on), three times out of four one whose
        # dark capture K*baseline is 0 as well when there is one (both boundary values at once: the log term of the likelihood vanishes
        # and only the linear term w*pred keeps light out of that receptor). Judged like every target not known to be in gamut.
        dr = R.rng(13, si)
        kinds = list(kinds)
        if S["nf"] >= 2 and wk != "inverse" and dr.random() < 0.6:
            lit_ = [d_ for d_ in range(S["nf"]) if np.all(S["Ap"][d_] > 0)]
            zb_ = [d_ for d_ in lit_ if S["bp"][d_] == 0]
            if zb_ and dr.random() < 0.75:
                lit_ = zb_
            if lit_:
                d_ = int(dr.choice(lit_))
                if np.any(np.delete(B[4], d_) > 0):
                    B[4, d_] = 0.0
                    kinds[4] = kinds[4] + "+dark-channel"
                    R.count("dark-channel(target exactly 0):baseline of that receptor %s" % ("zero" if S["bp"][d_] == 0 else "positive"))
        if not kinds[4].endswith("+dark-channel"):
            R.count("dark-channel(target exactly 0):none")
        # WR: the weights of every row, as values (what the model gets)
        WR = np.ones((len(B), nf)) if wk == "none" else (1 / B if wk == "inverse" else np.broadcast_to(W, (len(B), nf)).copy())
        W1 = "inverse" if wk == "inverse" else (None if W is None else (W[:1] if W.ndim == 2 else W))     # weights of the first target alone
        # representation of the arguments of the three fits (implementation side only; the model gets the values)
        rr = R.rng(2, si)
        g = {a: (None if v is None else as_given(rr, v, R, a)) for a, v in (("A", S["A"]), ("lb", S["lb"]), ("ub", S["ub"]), ("W", None if wk == "inverse" else W), ("K", S["K"]), ("baseline", S["baseline"]))}
        if whole:
            assert np.all(B == np.round(B))
            g["B"] = B.astype(np.int64) if rr.random() < 0.67 else B.astype(np.int64).tolist()
            R.count("given:B:%s" % ("int" if isinstance(g["B"], np.ndarray) else "list-of-int"))
        else:
            g["B"] = as_given(rr, B, R, "B")
        if wk == "inverse":
            g["W"] = "inverse"
        c = dict(k=k, nf=nf, ns=ns, A=S["A"], K=S["K"], K_kind=S["K_kind"], baseline=S["baseline"], baseline_kind=S["baseline_kind"], lb=S["lb"], ub=S["ub"],
                 W=("inverse" if wk == "inverse" else W), weights_kind=wk, B=B, target_kinds=kinds, whole=whole,
                 given={a: ("list" if isinstance(v, list) else ("None" if v is None else v if isinstance(v, str) else str(v.dtype) + ("" if v.flags["C_CONTIGUOUS"] else ":non-contiguous"))) for a, v in g.items()})
        for key in ("K_kind", "baseline_kind"):
            R.count("%s:%s" % (key, c[key]))
        R.count("weights:" + wk); R.count("ub:" + S["ub_kind"]); R.count("data:" + ("whole" if whole else "dyadic"))
        R.count("weights+baseline:%s" % (wk != "none" and bool(np.any(S["bp"] != 0))))
        # history: the same system was fitted with another adaptation state just before (answers must not depend on it)
        K_other = (np.ones(nf) * 2.0) if S["K"] is None else np.atleast_1d(S["K"]) * np.linspace(0.5, 2.0, max(np.atleast_1d(S["K"]).shape[0], 1))
        for mdl in ("gaussian", "poisson"):
            call(lsq_linear, S["A"], B[:1], lb=S["lb"], ub=S["ub"], W=W1, K=K_other, baseline=S["baseline"], model=mdl, return_pred=True, solver="CLARABEL")
        call(lsq_linear_excitation, S["A"], B[:1], lb=S["lb"], ub=S["ub"], W=None, K=K_other, baseline=S["baseline"], return_pred=True)
        # history, second kind: a fit with NON-DEFAULT solver options just before (a coarse quick preview, a user bracket for the
        # bisection, loose interior-point tolerances). Options belong to the call they are passed to: the ordinary fits below pass
        # none and are judged by the ordinary certificates. The preview's own answer is not judged. (own random stream)
        hr = R.rng(7, si)
        if hr.random() < 0.6:
            eo = [dict(eps=5e-2), dict(eps=1e-1), dict(low=0.0, high=1.0, eps=2e-2), dict(eps=1e-1, max_iters=8), dict(eps=3e-2, max_iters_interval_search=20)][int(hr.integers(5))]
            R.count("history:excitation-preview-with-options:%s" % "+".join(sorted(eo)))
            call(lsq_linear_excitation, S["A"], B[3:4] if hr.random() < 0.5 else B[:2], lb=S["lb"], ub=S["ub"], W=None, K=S["K"], baseline=S["baseline"], return_pred=True, **eo)
            po = [dict(tol_gap_abs=1e-2, tol_gap_rel=1e-2, tol_feas=1e-2), dict(max_iter=6), dict(tol_gap_rel=1e-1, tol_gap_abs=1e-1)][int(hr.integers(3))]
            R.count("history:poisson-preview-with-options:%s" % "+".join(sorted(po)))
            call(lsq_linear, S["A"], B[3:4], lb=S["lb"], ub=S["ub"], W=(None if W1 is None else "inverse" if wk == "inverse" else WR[3:4]), K=S["K"], baseline=S["baseline"], model="poisson", return_pred=True, solver="CLARABEL", **po)
        else:
            R.count("history:no-preview")
        # the performance option batch_size (C05: never changes a result): the five targets are fitted one by one, in jointly solved
        # groups of 2, 3 or 4 (zero-padded last group) or all at once. The certificates below judge every returned row on its own against
        # that row's objective (the objective of a jointly solved group is the sum of the rows' objectives over disjoint variables, cf.
        # theorem Dreye.ExtrasA.stacked_objective_sum for the least-squares form: a correct joint solve is optimal row by row).
        # (own random stream: the systems, targets and representations are those of the runs without this option)
        bs = [1, 2, 3, 4, "full"][int(R.rng(3, si).integers(5))]
        bkw = {} if bs == 1 else dict(batch_size=bs)
        c["batch_size"] = bs
        nb_ = len(B) if bs == "full" else min(bs, len(B))
        relb = np.asarray(S["bp"], dtype=float)
        R.count("batch_size:%s" % bs)
        R.count("joint-batch-with-relative-baseline-unequal-between-receptors:%s" % bool(nb_ >= 2 and len(set(relb.tolist())) > 1))
        R.count("joint-batch-with-unequal-bounds:%s" % bool(nb_ >= 2 and (len(set(S["lb"].tolist())) > 1 or len(set(S["ub"].tolist())) > 1)))
        # route: the function API, or (the property's observation point) ReceptorEstimator.fit(B, model=...) on a system registered with
        # an exactly reproduced capture matrix: filters [0 | A | 0], unit sources, unit-step domain. Per-receptor weights go in as the
        # constructor's `w`; per-sample / 'inverse' weights exist only in the function API.
        via_est = wk in ("none", "vector") and (si % 2 == 1 or bool(R.rng(7, si).integers(3) == 0))
        R.count("via:" + ("estimator" if via_est else "function"))
        c["via"] = "estimator" if via_est else "function"
        A_ = np.asarray(S["A"], dtype=float); nfe, nse = A_.shape
        filt_ = np.hstack([np.zeros((nfe, 1)), A_, np.zeros((nfe, 1))]); src_ = np.hstack([np.zeros((nse, 1)), np.eye(nse), np.zeros((nse, 1))])

        def mk_est(w_, k=k, S=S, g=g, A_=A_, filt_=filt_, src_=src_):
            kw_ = {} if w_ is None else dict(w=w_)
            e_ = dreye.ReceptorEstimator(filt_, domain=1.0, K=(1.0 if S["K"] is None else g["K"]), baseline=g["baseline"], sources=src_, lb=g["lb"], ub=g["ub"], **kw_)
            if not np.array_equal(np.asarray(e_.A, dtype=float), A_):
                R.failA(dict(k=k), "harness: the estimator's capture matrix is not the intended A")
            return e_
        # a solver iteration limit passed through **opt_kwargs (own random stream): three quarters of the systems get one more Poisson
        # fit of the same batch with max_iter = 1..12, the solver left to the library (a solve that stops at the limit is retried
        # with the fallback solver) or chosen explicitly (it must then end in RuntimeError). Whatever the limit: a fit that RETURNS is judged
        # by the ordinary certificates; a raised RuntimeError / SolverError is loud and fine.
        lr = R.rng(9, si)
        lim = None
        if lr.random() < 0.75:
            lim = dict(max_iter=int(lr.choice(ITER_LIMITS)))
            if lr.integers(2):
                lim["solver"] = "CLARABEL"
            R.count("iteration-limit:max_iter=%d:%s" % (lim["max_iter"], "solver chosen by the caller" if "solver" in lim else "solver left to the library"))
        else:
            R.count("iteration-limit:none")
        c["iteration_limit"] = lim
        stpl = opl = None
        if via_est:
            est_w = mk_est(None if wk == "none" else g["W"]); est_1 = mk_est(None)
            stg, og = call(est_w.fit, g["B"], solver="CLARABEL", **bkw)
            stp, op_ = call(est_w.fit, g["B"], model="poisson", solver="CLARABEL", **bkw)
            ste, oe = call(est_1.fit, g["B"], model="excitation", **bkw)
            if lim is not None:
                stpl, opl = call(est_w.fit, g["B"], model="poisson", **bkw, **lim)
        else:
            stg, og = call(lsq_linear, g["A"], g["B"], lb=g["lb"], ub=g["ub"], W=g["W"], K=g["K"], baseline=g["baseline"], return_pred=True, solver="CLARABEL", **bkw)
            stp, op_ = call(lsq_linear, g["A"], g["B"], lb=g["lb"], ub=g["ub"], W=g["W"], K=g["K"], baseline=g["baseline"], model="poisson", return_pred=True, solver="CLARABEL", **bkw)
            ste, oe = call(lsq_linear_excitation, g["A"], g["B"], lb=g["lb"], ub=g["ub"], W=None, K=g["K"], baseline=g["baseline"], return_pred=True, **bkw)
            if lim is not None:
                stpl, opl = call(lsq_linear, g["A"], g["B"], lb=g["lb"], ub=g["ub"], W=g["W"], K=g["K"], baseline=g["baseline"], model="poisson", return_pred=True, **bkw, **lim)
        if JUDGE_SCS_ITERATION_LIMIT and lim is not None and stpl is not None and "solver" in lim:
            stpl, opl = call(lsq_linear, g["A"], g["B"], lb=g["lb"], ub=g["ub"], W=g["W"], K=g["K"], baseline=g["baseline"], model="poisson", return_pred=True, solver="SCS", max_iters=lim["max_iter"], **bkw)
        Ap, bp = S["Ap"], S["bp"]
        wv = WR      # (rows x receptors: the weights of each target)
        # excitation with channel weights: a sub-batch (one inside, the boundary and one outside target)
        stw, ow = (None, None)
        # the sub-batch (own random stream): one inside target, one outside target and one more row, in an order of its own - in-gamut rows
        # before the out-of-gamut ones (every 8th system, and whenever the draw says so), after them, or interleaved. Every row is a problem of
        # its own, with ITS row of weights, wherever it stands in the batch.
        ws = R.rng(8, si)
        r_in, r_out = int(ws.integers(0, 2)), 3 + int(ws.integers(0, 2))
        if si % 8 == 1:
            r_out = 4       # (stratum: per-sample weights, in-gamut rows first, and the outside target whose minimiser depends on the weights)
        WROWS = [r_in, [r_ for r_ in range(len(B)) if r_ not in (r_in, r_out)][int(ws.integers(len(B) - 2))], r_out]
        if si % 8 == 1:
            WROWS = sorted(WROWS, key=lambda r_: (not ingamut[r_], r_))
        else:
            WROWS = [WROWS[int(j_)] for j_ in ws.permutation(3)]
        w_est = wk in ("vector", "matrix") and bool(ws.integers(2))
        c["weighted_sub_batch"] = dict(rows=WROWS, kinds=[kinds[r_] for r_ in WROWS], via=("estimator: register_targets + fit()" if w_est else "function"))
        if wk != "none" and (both or whole or rr.random() < 0.5):
            R.count("excitation-fitted-with-weights:" + wk)
            pos_in = [j_ for j_, r_ in enumerate(WROWS) if ingamut[r_]]; pos_out = [j_ for j_, r_ in enumerate(WROWS) if not ingamut[r_]]
            R.count("excitation-fitted-with-weights:order:%s" % ("one kind only" if not pos_in or not pos_out else "in-gamut rows first" if max(pos_in) < min(pos_out)
                                                                  else "out-of-gamut rows first" if max(pos_out) < min(pos_in) else "interleaved"))
            R.count("excitation-fitted-with-weights:via:%s" % ("estimator.register_targets(B[, W])+fit()" if w_est else "function"))
            gBw = np.asarray(g["B"])[WROWS]
            gBw = gBw.tolist() if isinstance(g["B"], list) else gBw
            gWw = g["W"] if wk != "matrix" else ([g["W"][i] for i in WROWS] if isinstance(g["W"], list) else np.asarray(g["W"])[WROWS])     # the sub-batch's rows of per-sample weights
            if w_est:
                # the estimator's way to per-sample importance weights: register_targets(B, W) and fit() without a target; per-receptor
                # weights are the constructor's w and register_targets(B) takes them over
                e_ = mk_est(g["W"] if wk == "vector" else None)
                stw, ow = call(e_.register_targets, gBw, gWw) if wk == "matrix" else call(e_.register_targets, gBw)
                if stw == "ok":
                    stw, ow = call(e_.fit, model="excitation", **bkw)
                if stw == "ok":
                    ow = (np.array(e_.X, dtype=float), np.array(e_.B, dtype=float))
            else:
                stw, ow = call(lsq_linear_excitation, g["A"], gBw, lb=g["lb"], ub=g["ub"], W=gWw, K=g["K"], baseline=g["baseline"], return_pred=True, **bkw)
            if stw == "ok":
                for j, i in enumerate(WROWS):
                    xw = np.clip(ow[0][j], S["lb"], S["ub"])
                    R.driver.ask("w%s_%d" % (k, i), "excdoc", ms(Ap), vs(bp), vs(B[i]), vs(xw))                                    # documented objective
                    R.driver.ask("v%s_%d" % (k, i), "excdoc", ms(wfold(Ap, WR[i])), vs(wfold(bp, WR[i])), vs(wfold(B[i], WR[i])), vs(xw))         # on weighted captures
        c["_w"] = (stw, ow); c["_ingamut"] = ingamut; c["_wrows"] = WROWS; c["_lim"] = (stpl, opl)
        if stp == "ok":
            for i in range(len(B)):
                R.driver.ask("p%s_%d" % (k, i), "poisgap", ns, ms(Ap), vs(bp), vs(wv[i]), vs(B[i]), vs(S["lb"]), ub_text(S["ub"]), vs(np.clip(op_[0][i], S["lb"], S["ub"])))
        if stpl == "ok":
            for i in range(len(B)):
                R.driver.ask("l%s_%d" % (k, i), "poisgap", ns, ms(Ap), vs(bp), vs(wv[i]), vs(B[i]), vs(S["lb"]), ub_text(S["ub"]), vs(np.clip(np.asarray(opl[0])[i], S["lb"], S["ub"])))
        if ste == "ok":
            for i in range(len(B)):
                R.driver.ask("e%s_%d" % (k, i), "excdoc", ms(Ap), vs(bp), vs(B[i]), vs(np.clip(oe[0][i], S["lb"], S["ub"])))
        rows.append((c, S, B, wv, (stg, og), (stp, op_), (ste, oe)))
    # ---- finely sampled sequences (own random stream; ONE per quick run, three per thorough run): a slowly varying series of N = 112..144 targets - the frames of
    # an intensity ramp x_t = x_0 (1+r)^t with r = total / N, total in {8, 10, 12} % (0.055 .. 0.107 % per frame), in gamut, or the same captures
    # pushed out of the gamut by a fixed factor per receptor - fitted in ONE call by each of the three models (solver=CLARABEL: the default
    # engine of the excitation model takes about a second per frame). Every frame is a target of its own: the first, the last and four random frames
    # are judged exactly like the rows of the small batches (Poisson gap, excitation objective + level certificate, in-gamut reproduction).
    for qi in range(1 if R.tier == "quick" else 3):
        k = "q%d" % qi
        if not R.want(k):
            continue
        qr = R.rng(11, qi)
        S = gen_wellscaled(qr, nf=int(qr.integers(2, 4)), ns=int(qr.integers(2, 5)), K_kinds=("none", "scalar", "vector"), ub_kinds=("finite",), lb_kinds=("zero", "zero", "pos"))
        # captures of order one (as above: the smallest channel extent in [1, 2)), where the excitation objective is sensitive to the captures
        j_ = int(np.floor(np.log2(float(np.min((np.abs(S["Ap"]) * (S["ub"] - S["lb"])).sum(axis=1))))))
        if j_ > 0:
            S["A"] = S["A"] / 2.0 ** j_; S["Ap"] = S["Ap"] / 2.0 ** j_
        nfr = int(qr.integers(112, 145)); total = float(qr.choice([0.08, 0.10, 0.12])); rstep = total / nfr
        x0 = S["lb"] + dyadic(qr, 0.25, 0.625, 3, size=S["ns"]) * (S["ub"] - S["lb"])
        Xseq = x0[None, :] * ((1.0 + rstep) ** np.arange(nfr))[:, None]
        assert np.all(Xseq <= S["ub"]) and np.all(Xseq >= S["lb"])
        Bseq = Xseq @ S["Ap"].T + S["bp"]
        skind = "inside" if qr.random() < 0.67 else "outside"
        if skind == "outside":
            f_ = dyadic(qr, 0.25, 4, 2, size=S["nf"]); f_[int(qr.integers(S["nf"]))] = 4.0
            Bseq = Bseq * f_ + 1.0
        Bseq = np.maximum(Bseq, 0.125)
        J = sorted(set([0, nfr - 1] + [int(v) for v in qr.integers(1, nfr - 1, size=4)]))
        R.count("sequence:%s, %d frames, %.3f %% per frame" % ("in-gamut ramp" if skind == "inside" else "out-of-gamut ramp", nfr, 100 * rstep))
        R.count("sequence:largest relative change between consecutive frames < 1e-3:%s" % bool(np.max(np.abs(np.diff(Bseq, axis=0)) / Bseq[:-1]) < 1e-3))
        for key in ("K_kind", "baseline_kind"):
            R.count("%s:%s" % (key, S[key]))
        gq = as_given(qr, Bseq, R, "B(sequence)", kinds=("same", "fortran", "strided", "list"))
        kwq = dict(lb=S["lb"], ub=S["ub"], W=None, K=S["K"], baseline=S["baseline"], return_pred=True, solver="CLARABEL")
        stg, og = call(lsq_linear, S["A"], gq, **kwq)
        stp, op_ = call(lsq_linear, S["A"], gq, model="poisson", **kwq)
        ste, oe = call(lsq_linear_excitation, S["A"], gq, **kwq)

        def sub_(st_, o_, nfr=nfr, J=J, S=S):
            if st_ != "ok":
                return st_, o_
            try:
                X_, P_ = np.asarray(o_[0], dtype=float), np.asarray(o_[1], dtype=float)
                if X_.shape != (nfr, S["ns"]) or P_.shape != (nfr, S["nf"]):
                    return "shape", "answer for a sequence of %d frames has shapes %s, %s" % (nfr, X_.shape, P_.shape)
                return "ok", (X_[J], P_[J])
            except Exception as e_:  # noqa: BLE001
                return "shape", "answer for a sequence is not a pair of arrays: %s" % e_
        (stg, og), (stp, op_), (ste, oe) = sub_(stg, og), sub_(stp, op_), sub_(ste, oe)
        B = Bseq[J]; wv = np.ones((len(J), S["nf"]))
        c = dict(k=k, nf=S["nf"], ns=S["ns"], A=S["A"], K=S["K"], K_kind=S["K_kind"], baseline=S["baseline"], baseline_kind=S["baseline_kind"], lb=S["lb"], ub=S["ub"],
                 W=None, weights_kind="none", B=B, target_kinds=[skind] * len(J), whole=False, batch_size=1, via="function", iteration_limit=None,
                 sequence=dict(frames=nfr, relative_step_per_frame=rstep, first_intensities=x0, B=Bseq, judged_frames=J, solver="CLARABEL",
                               note="all frames are fitted in ONE call; B above holds the judged frames only"))
        c["_w"] = (None, None); c["_ingamut"] = [skind == "inside"] * len(J); c["_wrows"] = []; c["_lim"] = (None, None)
        if stp == "ok":
            for i in range(len(B)):
                R.driver.ask("p%s_%d" % (k, i), "poisgap", S["ns"], ms(S["Ap"]), vs(S["bp"]), vs(wv[i]), vs(B[i]), vs(S["lb"]), ub_text(S["ub"]), vs(np.clip(op_[0][i], S["lb"], S["ub"])))
        if ste == "ok":
            for i in range(len(B)):
                R.driver.ask("e%s_%d" % (k, i), "excdoc", ms(S["Ap"]), vs(S["bp"]), vs(B[i]), vs(np.clip(oe[0][i], S["lb"], S["ub"])))
        rows.append((c, S, B, wv, (stg, og), (stp, op_), (ste, oe)))
    R.driver.run()
    # second round: excitation level certificates at t_hat - eps
    # accuracy granted to the excitation fit, in excitation units. The bound is the ENGINE's, not dreye's formulation: dreye's default
    # (SCS, a first-order solver, inside cvxpy's quasi-convex bisection) decides the feasibility of a level only to its own
    # tolerance. Observed worst on the unchanged tree: 3.2e-3 above the true minimum (1-source system A=[[1],[5]], K=[0.5,1.25],
    # baseline 0.5, target capture 100 -> e=0.990; seed 2, case s1); the same call with solver=CLARABEL is optimal to 2e-7.
    # 2e-3 was tighter than the engine supports. With an exactly dark channel in the target (e(0) = 0, the steepest part of q/(1+q)) the
    # default engine was observed 5.7e-3 above the minimum (thorough seed 0, case s83: target [0, 11, 8, 5], 4 receptors x 2 unbounded
    # sources; the witness [0.8, 0] has 0.44444, dreye's answer 0.45009). Granted: 1e-2 (the objective lives in [0, 1]).
    EPS = 1e-2
    # ... and 3e-2 for targets with an exactly dark channel AND captures spanning more than a decade next to it (thorough seed 0, case s131:
    # target [0, 35, 37, 100]: 1.09e-2 above the minimum with the default engine under a caller-set iteration limit). Same reason.
    EPS_DARK = 3e-2

    def eps_of(row):
        return EPS_DARK if np.any(np.asarray(row, dtype=float) == 0) else EPS
    for c, S, B, wv, G_, P_, E_ in rows:
        k = c["k"]; ste, oe = E_
        # recorded only (the weighted form of the objective is not documented): is the answer with weights minimal for the
        # excitation difference of the WEIGHTED captures?  Same certificate with the weights folded into A', baseline' and target.
        stw, ow = c["_w"]
        if stw == "ok":
            c["_thw"] = {}
            for i in c["_wrows"]:
                if c["_ingamut"][i]:
                    continue        # in-gamut rows: judged on the documented objective (minimum 0) below
                W = wv[i]
                thw = R.driver.get("v%s_%d" % (k, i)).rat()
                c["_thw"][i] = thw
                if float(thw) - eps_of(B[i]) > 0:
                    tF = F(float(thw) - eps_of(B[i]))
                    Apw = np.array([[float(v) for v in r] for r in wfold(S["Ap"], W)]); bpw = np.array([float(v) for v in wfold(S["bp"], W)]); bw = np.array([float(v) for v in wfold(B[i], W)])
                    lam = farkas_hint(Apw, bpw, bw, float(tF), S["lb"], S["ub"])
                    if lam is not None:
                        R.driver.ask("g%s_%d" % (k, i), "exclevel", S["ns"], ms(wfold(S["Ap"], W)), vs(wfold(S["bp"], W)), vs(wfold(B[i], W)), rs(tF), vs(lam), vs(S["lb"]), ub_text(S["ub"]))
        if ste != "ok":
            continue
        c["_that"] = []
        for i in range(len(B)):
            that = R.driver.get("e%s_%d" % (k, i)).rat()
            c["_that"].append(that)
            t_try = float(that) - eps_of(B[i])
            if t_try <= 0:
                continue
            tF = F(float(t_try))
            lam = farkas_hint(S["Ap"], S["bp"], B[i], float(tF), S["lb"], S["ub"])
            if lam is not None:
                R.driver.ask("f%s_%d" % (k, i), "exclevel", S["ns"], ms(S["Ap"]), vs(S["bp"]), vs(B[i]), rs(tF), vs(lam), vs(S["lb"]), ub_text(S["ub"]))
    R.driver.run()
    for c, S, B, wv, (stg, og), (stp, op_), (ste, oe) in rows:
        k = c["k"]
        pub = {a: b for a, b in c.items() if not a.startswith("_")}
        Ap, bp = S["Ap"], S["bp"]
        nf, ns = S["nf"], S["ns"]      # (the shifted-certificate requests below need THIS system's dimensions)
        nontriv = (k,)
        R.case(pub, nontriv, sample=True)
        rngb = np.where(np.isfinite(S["ub"]), S["ub"] - S["lb"], 1.0)
        stw, ow = c["_w"]; WROWS = c["_wrows"]
        stpl, opl = c["_lim"]
        allrows = list(range(len(B)))
        for name, st, o, ridx in (("gaussian", stg, og, allrows), ("poisson", stp, op_, allrows), ("excitation", ste, oe, allrows), ("excitation+weights", stw, ow, WROWS),
                                  ("poisson+iteration-limit", stpl, opl, allrows)):
            if st is None:
                continue
            sig = "C07:" + name
            if name.endswith("+iteration-limit"):
                R.count("%s:%s" % (name, "returned" if st == "ok" else "raised:" + st))
                if (st == "runtime" and "did not converge" in str(o)) or st == "other:SolverError":
                    continue        # loud: RuntimeError('Optimization did not converge.') / the solver's own error; nothing was returned
            if name == "excitation" and "sequence" in c and st == "runtime" and "did not converge" in str(o):
                # the finely sampled sequences are fitted with solver="CLARABEL" chosen by the harness (the default SCS bisection would take
                # ~1 s per frame); CLARABEL's bisection stops at its iteration limit on roughly one target in five and dreye then raises
                # "did not converge" (DESIGN 9.4, `user_limit`): a loud refusal of a harness-chosen solver over > 100 frames, not a wrong
                # answer. Counted; the gaussian and Poisson fits of the same sequence are still judged.
                R.count("sequence:excitation-with-CLARABEL-did-not-converge(loud)"); continue
            if st == "other:SolverError":
                # the conic solver itself gave up (cvxpy raises): a loud runtime failure, not a wrong answer; the model cannot exhibit it.
                # counted, and a violation only when it becomes systematic (see the end of run)
                R.count("solver-error-raised:" + name); n_solver_err[0] += 1; continue
            if st != "ok":
                R.failB(dict(pub, impl_error=o), "%s fit raised %s: %s" % (name, st, o), sig + ":raises:" + st); continue
            X, Bp = np.asarray(o[0]), np.asarray(o[1])
            if np.any(X < S["lb"] - 1e-2 * rngb) or np.any(X > S["ub"] + 1e-2 * rngb):
                R.failB(dict(pub, model=name, impl=X), "%s intensities violate the bounds" % name, sig + ":bounds")
            if np.max(np.abs(Bp - (X @ Ap.T + bp))) > 1e-9 * (np.max(np.abs(Bp)) + 1):
                R.failB(dict(pub, model=name, impl=[X, Bp]), "%s: returned prediction is not the model's capture of the returned intensities" % name, sig + ":pred-mismatch")
            # in-gamut targets are reproduced by all three models
            for j, i in enumerate(ridx):
                kd = c["target_kinds"][i]
                if kd == "inside":
                    tol = 2e-2 if not name.startswith("excitation") else 2e-2 * float(np.max((1 + B[i]) ** 2))   # excitation saturates: tolerance in excitation units
                    if name.endswith("+iteration-limit"):
                        # 2e-2 capture units is the accuracy of the solvers with DEFAULT settings (C04). A caller who limits the iterations may get the
                        # solver's reduced-accuracy answer ('optimal_inaccurate', accepted by dreye): observed on the unchanged tree 0.077 capture units
                        # (0.4 %) off an in-gamut target with solver=CLARABEL, max_iter=8 (seed 0, case s4) while the objective is within 1e-4 of its
                        # minimum (the likelihood is flat there). Such a fit is judged on its objective (gap certificate below); the reproduction
                        # of in-gamut targets is recorded only.
                        R.count("%s:in-gamut-target-reproduced-to-2e-2(recorded-only):%s" % (name, bool(np.max(np.abs(Bp[j] - B[i])) <= tol)))
                        continue
                    if np.max(np.abs(Bp[j] - B[i])) > tol:
                        R.failB(dict(pub, model=name, row=i, target=B[i], impl=Bp[j]), "%s model does not reproduce an in-gamut target (max error %.4g)" % (name, float(np.max(np.abs(Bp[j] - B[i])))),
                                sig + ":in-gamut-not-reproduced:baseline=" + c["baseline_kind"])
                if name == "excitation+weights" and kd in ("inside", "boundary") and c["_ingamut"][i]:
                    # an in-gamut target: the minimum of the documented objective max|e(b)-e(p)| is 0 whatever positive weights are used
                    # (with weights w the programme works on w*b and w*p; |e(b)-e(p)| <= max(w, 1/w) |e(wb)-e(wp)| (theorem Dreye.C07.excite_weight_bound), so the accuracy EPS
                    # granted to the unweighted fit is granted times that factor)
                    tdoc = R.driver.get("w%s_%d" % (k, i)).rat()
                    wfac = float(max(np.max(wv[i]), 1.0 / np.min(wv[i])))
                    R.count("excitation+weights:in-gamut-objective<=eps:%s" % (float(tdoc) <= EPS * wfac))
                    if float(tdoc) > EPS * wfac:
                        R.failB(dict(pub, model=name, row=i, target=B[i], impl=[X[j], Bp[j]], objective=float(tdoc)),
                                "excitation model with weights: the excitation difference at the returned intensities of an in-gamut (%s) target is %.4g, its minimum is 0" % (kd, float(tdoc)),
                                sig + ":in-gamut-objective-not-minimal:baseline=" + c["baseline_kind"])
            if name == "excitation+weights":
                # the rows that are not in gamut: the model of a weighted fit folds the row's OWN weights into captures, baseline and target (the
                # way K is folded) and takes the documented objective there. The answer must be within EPS of that minimum: certified by a
                # level certificate, refuted by an in-bound point that the model evaluates exactly to a level lower by more than EPS. The
                # weighted form is the implementation's reading of 'weights for the objective function' (it is not spelt out in the
                # documentation): a refutation is therefore reported as model/implementation disagreement, not as a predicate failure.
                for j, i in enumerate(WROWS):
                    if i not in c["_thw"]:
                        continue
                    t = R.driver.get("g%s_%d" % (k, i)); okc = float(c["_thw"][i]) - eps_of(B[i]) <= 0
                    if t is not None and not okc:
                        tok = t.tok(); okc = tok not in ("none", "ERR") and parse_rat(tok) > 0
                    if okc:
                        R.cert(True); R.count("excitation+weights:not-in-gamut-row:minimal-for-its-own-weights:certified"); continue
                    Wi = wv[i]
                    Apw = np.array([[float(v) for v in r] for r in wfold(Ap, Wi)]); bpw = np.array([float(v) for v in wfold(bp, Wi)]); bw = np.array([float(v) for v in wfold(B[i], Wi)])
                    xw_ = lower_level_witness(Apw, bpw, bw, S["lb"], S["ub"], float(c["_thw"][i]))
                    tw_ = None
                    if xw_ is not None:
                        R.driver.ask("y%s_%d" % (k, i), "excdoc", ms(wfold(Ap, Wi)), vs(wfold(bp, Wi)), vs(wfold(B[i], Wi)), vs(xw_))
                        R.driver.run()
                        tw_ = R.driver.get("y%s_%d" % (k, i))
                        tw_ = tw_.rat() if tw_ is not None and tw_.t and tw_.t[0] != "ERR" else None
                    if tw_ is not None and float(tw_) < float(c["_thw"][i]) - eps_of(B[i]):
                        R.cert(False); R.count("excitation+weights:not-in-gamut-row:minimal-for-its-own-weights:refuted")
                        R.failA(dict(pub, model=name, row=i, position_in_sub_batch=j, target=B[i], weights=Wi, impl=[X[j], Bp[j]], objective=float(c["_thw"][i]), better_point=xw_, better_objective=float(tw_)),
                                "excitation model with weights: row %d of the sub-batch (target row %d, %s) is not fitted for its own row of weights: excitation difference of the weighted captures %.6g at the "
                                "returned intensities, %.6g at the in-bound point %s (accuracy granted: %.0e)" % (j, i, c["target_kinds"][i], float(c["_thw"][i]), float(tw_), np.asarray(xw_).tolist(), EPS))
                    else:
                        R.count("excitation+weights:not-in-gamut-row:minimal-for-its-own-weights:undecided(recorded-only)")
        for pname, ptag, stq, oq in (("poisson", "p", stp, op_), ("poisson+iteration-limit", "l", stpl, opl)):
            if stq != "ok":
                continue
            for i in range(len(B)):
                t = R.driver.get("%s%s_%d" % (ptag, k, i)); inb = t.bool(); minp = t.rat(); gap = t.tok()
                pr0_ = Ap @ np.clip(np.asarray(oq[0])[i], S["lb"], S["ub"]) + bp
                if inb and minp == 0 and c["target_kinds"][i].endswith("+dark-channel") and "sequence" not in c and np.all(B[i][pr0_ <= 0] == 0):
                    # the answer switches every source off exactly and the dark receptor has no dark capture: predicted capture exactly 0
                    # where the target is 0 (0 log 0); the gap certificate needs positive predictions. Counted, not judged.
                    R.count("%s:dark-channel:predicted capture exactly 0 (not judged)" % pname); continue
                ok = inb and minp > 0 and gap != "none"
                gv = float(parse_rat(gap)) if gap != "none" else float("inf")
                scale = float(np.sum(wv[i] * (B[i] + 1)))
                xh = np.clip(np.asarray(oq[0])[i], S["lb"], S["ub"])
                if not ok and inb and minp > 0 and not np.all(np.isfinite(S["ub"])):
                    # a source without upper bound whose gradient entry is slightly negative: infinite gap at the answer.
                    # Evaluate the gap at a slightly larger in-bound point x' and carry it back (theorem poisson_shifted_gap_bound)
                    for dl in (1e-6, 1e-4, 1e-2):
                        x2 = np.where(np.isfinite(S["ub"]), xh, xh + dl * (1.0 + np.abs(xh)))
                        R.driver.ask("q1", "poisgap", ns, ms(Ap), vs(bp), vs(wv[i]), vs(B[i]), vs(S["lb"]), ub_text(S["ub"]), vs(x2))
                        R.driver.ask("q2", "poistan", ns, ms(Ap), vs(bp), vs(wv[i]), vs(B[i]), vs(xh), vs(x2))
                        R.driver.run()
                        t1 = R.driver.get("q1"); inb2 = t1.bool(); minp2 = t1.rat(); gap2 = t1.tok()
                        t2 = R.driver.get("q2"); t2.rat(); tan = t2.rat()
                        if inb2 and minp2 > 0 and gap2 != "none":
                            gv = float(parse_rat(gap2) + tan); ok = True
                            R.count("poisson-gap:shifted-certificate")
                            break
                R.cert(ok and gv <= 2e-2 * scale)   # the obligation is the threshold below; how many reach the tighter 1e-3 is counted
                R.count("%s-gap<=1e-3:%s" % (pname, gv <= 1e-3 * scale))
                if ok:
                    R.notes["worst certified %s gap / scale (threshold 2e-2)" % pname] = max(R.notes.get("worst certified %s gap / scale (threshold 2e-2)" % pname, 0.0), gv / scale)
                if not (ok and gv <= 2e-2 * scale):
                    # not certified: is the answer really sub-optimal?  Search an in-bound point z with a lower negative log-likelihood (untrusted:
                    # L-BFGS-B) and let the model bound the difference from below, exactly and without logarithms, by the tangent inequality AT z
                    # (theorem poisson_tangent_x: obj(z) + g(z).(x - z) <= obj(x)). A point better by more than the granted 2e-2 x scale shows
                    # that the answer is not a global minimiser (property predicate).
                    z_ = poisson_better_point(Ap, bp, wv[i], B[i], S["lb"], S["ub"], xh) if (inb and minp > 0) else None
                    if z_ is not None and np.all(z_ >= S["lb"]) and np.all(z_ <= S["ub"]):
                        R.driver.ask("z%s_%d" % (k, i), "poistan", ns, ms(Ap), vs(bp), vs(wv[i]), vs(B[i]), vs(z_), vs(xh))
                        R.driver.run()
                        tz = R.driver.get("z%s_%d" % (k, i))
                        if tz is not None and tz.t and tz.t[0] != "ERR":
                            minpz = tz.rat(); worse_by = -float(tz.rat())       # obj(answer) - obj(z) >= g(z).answer - g(z).z
                            if minpz > 0 and worse_by > 2e-2 * scale:
                                R.count("%s:better-in-bound-point-exhibited" % pname)
                                R.failB(dict(pub, model=pname, row=i, target=B[i], weights=wv[i], impl=[np.asarray(oq[0])[i], np.asarray(oq[1])[i]], better_point=z_, worse_by_at_least=worse_by, scale=scale),
                                        "%s model: the returned intensities are not a global minimiser of the weighted Poisson negative log-likelihood: at the in-bound point %s it is lower by at least %.4g "
                                        "(granted: %.4g)" % (pname, np.asarray(z_).tolist(), worse_by, 2e-2 * scale), "C07:%s:not-global-minimum:%s" % (pname, c["target_kinds"][i]))
                                continue
                    R.failA(dict(pub, row=i, gap=gv, model=pname), "%s answer not certified near-optimal (gap %.4g, scale %.4g)" % (pname, gv, scale))
        if ste == "ok":
            for i in range(len(B)):
                that = c["_that"][i]
                t = R.driver.get("f%s_%d" % (k, i))
                if float(that) - eps_of(B[i]) <= 0:
                    R.cert(True); continue   # objective already within eps of its lower bound 0
                okc = False
                if t is not None:
                    tok = t.tok()
                    if tok not in ("none", "ERR"):
                        okc = parse_rat(tok) > 0
                R.cert(okc)
                if not okc:
                    # not certified: is the answer really sub-optimal?  Search an in-bound point with a lower objective (untrusted LP
                    # bisection) and let the model evaluate the documented objective there exactly: a point better by more than the
                    # accuracy EPS granted to the engine shows that the answer is not a global minimiser (property predicate).
                    xw_ = lower_level_witness(Ap, bp, B[i], S["lb"], S["ub"], float(that))
                    if xw_ is not None:
                        R.driver.ask("x%s_%d" % (k, i), "excdoc", ms(Ap), vs(bp), vs(B[i]), vs(xw_))
                        R.driver.run()
                        tw_ = R.driver.get("x%s_%d" % (k, i))
                        tw_ = tw_.rat() if tw_ is not None and tw_.t and tw_.t[0] != "ERR" else None
                        if tw_ is not None and float(tw_) < float(that) - eps_of(B[i]):
                            R.count("excitation:better-in-bound-point-exhibited")
                            R.failB(dict(pub, model="excitation", row=i, target=B[i], impl=[oe[0][i], oe[1][i]], objective=float(that), better_point=xw_, better_objective=float(tw_)),
                                    "excitation model: the returned intensities have excitation difference %.6g, the in-bound point %s has %.6g (accuracy granted: %.0e): not a global minimiser"
                                    % (float(that), np.asarray(xw_).tolist(), float(tw_), EPS), "C07:excitation:not-global-minimum:%s" % c["target_kinds"][i])
                            continue
                    R.failA(dict(pub, row=i, objective=float(that)), "excitation answer not certified within %.0e of the optimum level (objective %.6g)" % (EPS, float(that)))
    n_sys = max(1, R.evaluations)
    R.notes["solver_errors_raised"] = n_solver_err[0]
    if n_solver_err[0] > max(2, 0.05 * 3 * n_sys):
        R.failB(dict(n=n_solver_err[0], systems=n_sys), "the conic solver raised SolverError on %d of %d fits: systematic, not a sporadic runtime failure" % (n_solver_err[0], 3 * n_sys),
                "C07:solver-errors-systematic")
