"""C05 — samples are fitted independently; batch size never changes or breaks a result."""
import os
import sys
import numpy as np
from common import F, rs, vs, ms, dyadic, close, call, as_given
from systems import gen_A, gen_K, gen_baseline, apply_K


def drain():
    from dreye import _verif
    return _verif.drain()


def quiet(f, *a, **k):
    """run f with the progress bars of verbose >= 1 (written to stderr) kept out of the check's output"""
    import contextlib, io
    with contextlib.redirect_stderr(io.StringIO()), contextlib.redirect_stdout(io.StringIO()):
        return f(*a, **k)


def batch_text(b):
    return "none" if b is None else ("full" if b == "full" else str(b))


def run(R):
    import cvxpy as cp
    from dreye.api.optimize.lsq_linear import lsq_linear, lsq_linear_excitation, lsq_linear_minimize
    quick = R.tier == "quick"
    NMAX = 5 if quick else 9
    R.rule = ("exhaustive grid: every sample count n in 1..%d x every batch size in 1..n+2, 'full', None, for the gaussian, "
              "poisson, excitation and variance-minimisation procedures on an underdetermined 3x4 system with K, baseline, "
              "weights and per-source bounds that differ between sources (so that mis-stacked bounds show); rows pairwise "
              "distinct, in- and out-of-gamut mixed, except that zero, one or two rows of a group are dark (target = baseline capture, i.e. no light; "
              "gaussian, poisson and variance-minimisation fits; out of gamut where a lower bound is non-zero; across the batch sizes solved alone, next to another dark row, next to lit rows, next "
              "to the padding; not in the whole-number groups); targets (and 2-D weights) handed in as C-ordered / Fortran-ordered "
              "(e.g. a transposed table) / strided arrays, lists, or integer arrays when whole (n = 2, 5, 8 use whole-number "
              "targets, except on the over-determined shapes where rounding would leave no in-gamut row) - the model sees values only, arguments must be unchanged afterwards; the hook-recorded (batch idx, padded, rows written) "
              "sequence is compared literally with the Lean batchPlan; results of every batch size are compared with batch "
              "size 1; per-sample weights (W='inverse', c/B, random 2-D) with batch sizes 1, 2, 3 (padded): the joint fit must equal "
              "fitting every row alone with its own weight row - also when the rows of one call span several decades (a dark "
              "out-of-gamut row next to bright rows; compared relative to the row's own size; gaussian and poisson); plus row "
              "permutation / duplication / drop / append. System shapes: besides the 3x4 system the same receptors with 3, 2 and 1 sources "
              "(exactly determined, over-determined, single source; full column rank, so in-gamut rows have unique intensities and sit next "
              "to out-of-gamut rows in one call): the batch grid for two sample counts on randomly drawn shapes (gaussian, poisson), every "
              "per-sample-weights case a second time on a randomly drawn shape, and the row permutation / duplication / drop / append also "
              "with one weight vector per sample (2-D W whose rows move with their targets) on a randomly drawn shape. "
              "Options that must not interact with the batch size: the documented progress display (verbose=1) is switched on for a random "
              "~40%% of the grid cells and of the permutation / duplication calls (the batch-size-1 reference of each group keeps verbose=0 "
              "or 1 as drawn); a call that raises with it is a failure like any other. "
              "Non-trivial: n mod bs != 0 or bs > n (padded path) with distinct rows." % NMAX)
    rng0 = R.rng(0)
    nf, ns = 3, 4
    A = gen_A(rng0, nf, ns)
    kk, K = gen_K(rng0, nf, kinds=("vector",))
    bk, base = gen_baseline(rng0, nf, kinds=("vector",))
    # per-source bounds that differ between sources: a batch stacks them once per sample of the batch
    lb = np.array([0.0, 0.25, 0.0, 0.125]); ub = np.array([2.0, 1.5, 1.75, 1.25])
    w = np.array([1.0, 2.0, 0.5])
    Ap, bp = apply_K(A, K, base)
    # the same receptors with fewer sources: exactly determined (3x3), over-determined (3x2) and single-source (3x1) systems of full
    # column rank, where the intensities that reproduce an in-gamut target are unique (own random stream: the 3x4 system is unchanged)
    SYS = {"under": dict(A=A, lb=lb, ub=ub, Ap=Ap, ns=ns)}
    rngs = R.rng(30)
    for name_, ns_ in (("exact", 3), ("over", 2), ("single", 1)):
        A_ = gen_A(rngs, nf, ns_)
        SYS[name_] = dict(A=A_, lb=lb[:ns_].copy(), ub=ub[:ns_].copy(), Ap=apply_K(A_, K, base)[0], ns=ns_)
    SHAPES = ["under", "exact", "over", "single"]

    def in_gamut(Ae, be, Bt, lbs, ubs):
        """rows of Bt reproduced by in-bound intensities (decided for full column rank only; used for the evidence counts only)"""
        if Ae.shape[1] > Ae.shape[0]:
            return None
        Xs = np.linalg.lstsq(Ae, (Bt - be).T, rcond=None)[0].T
        res = np.abs(Xs @ Ae.T + be - Bt).max(axis=1)
        return (res <= 1e-9 * np.abs(Bt).max(axis=1)) & np.all((Xs >= lbs - 1e-12) & (Xs <= ubs + 1e-12), axis=1)

    def count_mix(tag, ing):
        if ing is not None:
            R.count("%s:full-column-rank:in-gamut-rows-mixed-with-out-of-gamut-rows:%s" % (tag, bool(np.any(ing) and not np.all(ing))))

    def targets(n, rng, sysname="under"):
        S_ = SYS[sysname]
        Xt = S_["lb"] + dyadic(rng, 0.125, 0.875, 3, size=(n, S_["ns"])) * (S_["ub"] - S_["lb"])
        B = Xt @ S_["Ap"].T + bp
        out = rng.random(n) < 0.4
        B[out] = B[out] * np.array([3.0, 0.5, 2.0])    # pushed out of the gamut, hue changed
        if n % 3 == 2 and sysname in ("under", "exact"):
            # whole-number targets (may then be handed in with an integer dtype). Not for the over-determined shapes: their gamut has
            # no volume, rounding would push every row out of it and the in-/out-of-gamut mix of the call would be lost
            B = np.round(B)
        return B, out
    models = ["gaussian", "poisson", "excitation", "minvar"]

    def fit(model, B, bs, sysname="under", W=None, **kw):
        if model in ("gaussian", "poisson"):
            S_ = SYS[sysname]
            return lsq_linear(S_["A"], B, lb=S_["lb"], ub=S_["ub"], W=(w if W is None else W), K=K, baseline=base, batch_size=bs, model=model, return_pred=True, solver="CLARABEL", **kw)
        assert sysname == "under" and W is None
        if model == "excitation":
            return lsq_linear_excitation(A, B, lb=lb, ub=ub, W=None, K=K, baseline=np.zeros(nf), batch_size=bs, return_pred=True, solver="CLARABEL", **kw)
        return lsq_linear_minimize(A, B, None, lb=lb, ub=ub, W=w, K=K, baseline=base, batch_size=bs, return_pred=True, l2_eps=1e-3, solver="CLARABEL", **kw)[:2]

    def excit_obj(Bt, Bp):
        e = lambda q: q / (1 + q)
        return np.max(np.abs(e(Bt) - e(Bp)), axis=-1)

    grid = []
    for n in range(1, NMAX + 1):
        for bs in list(range(1, n + 3)) + ["full", None]:
            grid.append(("under", n, bs))
    # exactly / over-determined and single-source systems (gaussian and poisson): two sample counts, each on a randomly drawn shape
    xshape = [SHAPES[1 + int(i)] for i in R.rng(31).permutation(3)]
    for j, n in enumerate((3, 5) if quick else (1, 3, 5, 8)):
        for bs in list(range(1, n + 3)) + ["full", None]:
            grid.append((xshape[j % 3], n, bs))

    def gmodels(sysname):
        return models if sysname == "under" else ["gaussian", "poisson"]
    ref = {}
    reqs = []
    raised = []
    for gi, (sysname, n, bs) in enumerate(grid):
        for model in gmodels(sysname):
            R.driver.ask("p%d_%s" % (gi, model), "batchplan", model, n, batch_text(bs))
    R.driver.run()
    for gi, (sysname, n, bs) in enumerate(grid):
        S_ = SYS[sysname]
        B0, outmask = targets(n, R.rng(7, n), sysname)
        # dark rows: "no light" is a legitimate target (black pixels of an image, the pause between flashes): the capture equals the
        # baseline capture (zero for the excitation fit, which is run without baseline). With the non-zero lower bounds of sources 1 and 3
        # darkness is out of gamut and its best fit is the in-bound point closest to it. Zero, one or two rows of a call are dark (own
        # random stream, same rows for every batch size of the group), so that across the batch sizes a dark row is solved alone, next to
        # another dark row, next to lit rows and next to the padding. (Not in the whole-number groups: the baseline capture is not whole.)
        rd = R.rng(43, n, SHAPES.index(sysname))
        ndark = 0 if (n % 3 == 2 and sysname in ("under", "exact")) else min(n, int(rd.choice([0, 1, 1, 2])))
        dark = np.zeros(n, dtype=bool); dark[rd.permutation(n)[:ndark]] = True
        for model in gmodels(sysname):
            B = B0.copy()
            if model != "excitation":
                # (not for the excitation fit: with non-zero lower bounds its bisection does not converge on an all-zero target at any
                # batch size, one included -- RuntimeError('Optimization did not converge'), loud and not a matter of the batch size --
                # and the group would lose the reference the property compares with)
                B[dark] = bp
            t = R.driver.get("p%d_%s" % (gi, model))
            bsz = t.nat(); nw = t.nat()
            plan = [(t.nat(), t.bool(), t.nat(), t.nat()) for _ in range(nw)]
            k = "%s:n=%d:bs=%s" % (model, n, batch_text(bs)) + ("" if sysname == "under" else ":" + sysname)
            if not R.want(k):
                continue
            if model in ("excitation", "minvar") and quick and n > 4:
                continue
            c = dict(k=k, model=model, system=sysname, n=n, batch_size=batch_text(bs), A=S_["A"], K=K, baseline=base, lb=S_["lb"], ub=S_["ub"], w=w, B=B)
            R.count("model:" + model); R.count("grid-system:%s(%dx%d)" % (sysname, nf, S_["ns"]))
            if model != "excitation":
                R.count("dark-rows-in-call:%d of %d:%s" % (ndark, n, "lower bounds > 0" if np.any(S_["lb"] > 0) else "lower bounds 0"))
                c["dark_rows"] = np.flatnonzero(dark).tolist()
            padded = any(p[1] for p in plan)
            R.count("padded:%s" % padded)
            # same values, another representation (implementation side only)
            Bg = as_given(R.rng(21, gi, models.index(model)), B, R, "B")
            # the documented progress display: an option that each batch size must work with (own random stream)
            vb = int(R.rng(41, gi, models.index(model)).random() < 0.4)
            R.count("verbose:%d" % vb)
            if vb:
                c["verbose"] = vb
                R.count("verbose=1:padded:%s" % padded)
            drain()
            st, out = call(quiet, fit, model, Bg, bs, sysname, verbose=vb)
            ev = [e for e in drain() if e["event"] == "batch"]
            nontriv = ((model, n, batch_text(bs)) if sysname == "under" else (model, n, batch_text(bs), sysname)) if (padded and n >= 1) else None
            R.case(c, nontriv, sample=(nontriv is not None and model == "gaussian" and n == 4))
            sig = "C05:%s" % model
            if st != "ok":
                cls = "bs>n" if (isinstance(bs, int) and bs > n) else ("bs>1" if (bsz > 1) else "bs=1")
                raised.append((c, model, n, bs, bsz, st, out, B, cls, sysname))
                continue
            # A: the scatter bookkeeping recorded by the hook equals the model's plan
            site = "lsq_linear_minimize" if model == "minvar" else "_solve_problem"
            got = [(e["idx"], bool(e["padded"]), e["start"], e["stop"]) for e in ev if e["site"] == site]
            if got != plan:
                R.failA(c, "recorded batch sequence %s differs from batchPlan %s" % (got, plan))
            X, Bp = out
            key = (model, n, sysname)
            if bsz == 1 and key not in ref:
                ref[key] = (np.array(X), np.array(Bp))
            reqs.append((c, model, n, bs, bsz, np.array(X), np.array(Bp), B, outmask, sysname))
    # a fit that raises. The property says "never fails because of the combination" (of sample count and batch size): it is a
    # violation when the same targets are fitted without error at batch size one, or when the error is anything but the solver's
    # honest "did not converge". When the (harness-chosen) solver does not converge on these targets at batch size one either, the
    # reference result the property compares with does not exist: the group (model, n) is excluded and counted; a model that
    # loses more than half of its groups this way is reported as a correspondence failure.
    noref = {}
    for c, model, n, bs, bsz, st, out, B, cls, sysname in raised:
        sig = "C05:%s" % model
        key = (model, n, sysname)
        if key not in ref and key not in noref:
            st1, o1 = call(fit, model, B, 1, sysname)
            if st1 == "ok":
                ref[key] = (np.array(o1[0]), np.array(o1[1]))
            else:
                noref[key] = (st1, o1)
        nonconv = st == "runtime" and "did not converge" in str(out)
        if key in noref and nonconv and noref[key][0] == "runtime" and "did not converge" in str(noref[key][1]):
            R.count("excluded:solver-did-not-converge-at-batch-size-1-either:%s" % model)
            continue
        R.failB(dict(c, impl_error=out), "fit with n=%d, batch_size=%s failed: %s" % (n, batch_text(bs), out), sig + ":raises:%s:%s" % (st, cls))
    for model in models:
        groups = {(sn, n) for (sn, n, bs) in grid if model in gmodels(sn) and not (model in ("excitation", "minvar") and quick and n > 4)}
        lost = sorted((sn, n) for (m, n, sn) in noref if m == model)
        if lost:
            R.count("coverage-lost:%s:%d-of-%d-sample-counts-without-reference" % (model, len(lost), len(groups)))
        # The excitation fit is a bisection over cone feasibility problems and the solver this harness passes (CLARABEL) refuses some
        # target sets with an honest "did not converge" at every batch size (DESIGN 9.5, C07): that is the engine, not the batching,
        # and at some seeds it takes most of the (few, quick tier) excitation groups. Counted as lost coverage, not alarmed.
        if R.only_case is None and model != "excitation" and len(lost) * 2 > len(groups):
            R.failA(dict(k="%s:no-reference" % model, model=model, sample_counts=lost), "the %s fit did not converge at batch size one for %d of %d sample counts: no reference to compare with" % (model, len(lost), len(groups)))
    for c, model, n, bs, bsz, X, Bp, B, outmask, sysname in reqs:
        if (model, n, sysname) not in ref:
            st1, o1 = call(fit, model, B, 1, sysname)
            if st1 != "ok":
                continue
            ref[(model, n, sysname)] = (np.array(o1[0]), np.array(o1[1]))
        X1, Bp1 = ref[(model, n, sysname)]
        sig = "C05:%s" % model
        cls = "bs>1" if bsz > 1 else "bs=1"
        # solver accuracy: exponential-cone (poisson) and bisection (excitation) solves are only accurate to ~1e-3
        tol = {"excitation": 2e-2, "poisson": 1e-2, "minvar": 1e-3}.get(model, 2e-4)   # minvar: a cone problem whose own tolerance l2_eps is 1e-3
        if model == "minvar":
            # the error budget of the second stage is (first-stage error + l2_eps); the first stage is the gaussian QP, whose answer moves by
            # ~1e-5 of the stacked problem's scale between batch sizes (below), and the variance optimum moves with the budget
            # (thorough seed 1: 1.5e-3 with targets up to 58 units)
            tol = max(tol, 5e-5 * (1.0 + float(np.max(np.abs(B)))))
        if model == "gaussian":
            # the QP solver's accuracy (1e-5, relative to the scale of the stacked problem) in capture units: with rows up to ~15 units in the
            # same call a row pinned at a bound (a dark row: x = lb) moves by ~3e-4 between batch sizes (thorough seed 0: 3.2e-4)
            tol = max(tol, 5e-5 * (1.0 + float(np.max(np.abs(B)))))
        if os.environ.get("VERIF_DEBUG"):
            print("DEBUG", c["k"], float(np.abs(Bp - Bp1).max()), outmask.tolist(), file=sys.stderr)
        if X.shape != X1.shape or Bp.shape != Bp1.shape:
            R.failB(dict(c, impl=[X, Bp]), "result shapes differ from batch size 1", sig + ":shape:" + cls); continue
        if np.any(X < SYS[sysname]["lb"] - 1e-6) or np.any(X > SYS[sysname]["ub"] + 1e-6):
            R.failB(dict(c, impl=[X, Bp]), "intensities out of bounds", sig + ":bounds:" + cls); continue
        if model == "excitation":
            o, o1 = excit_obj(B, Bp), excit_obj(B, Bp1)
            # the objective lives in excitation units q/(1+q), which saturate: 1e-4 there is ~1e-2 capture units
            bad = np.abs(o - o1) > 1e-4
            if np.any(bad):
                R.failB(dict(c, impl=[X, Bp], ref_bs1=[X1, Bp1], objective=[o, o1]),
                        "excitation objective per row %s differs from the batch-size-1 result %s (rows %s)" % (o.tolist(), o1.tolist(), np.flatnonzero(bad).tolist()),
                        sig + ":differs-from-bs1:" + cls)
        else:
            bad = np.abs(Bp - Bp1).max(axis=1) > tol
            if np.any(bad):
                R.failB(dict(c, impl=[X, Bp], ref_bs1=[X1, Bp1]),
                        "predicted captures of rows %s differ from the batch-size-1 result by %.3g" % (np.flatnonzero(bad).tolist(), float(np.abs(Bp - Bp1).max())),
                        sig + ":differs-from-bs1:" + cls)

    # per-sample weights: a joint fit must equal the row-by-row fits (each row alone with its own weight row),
    # also when the products target*weight coincide on neighbouring rows (W = c / B, W = 'inverse'), and when the rows of one
    # call span several decades ("row i depends only on row i of the targets and of its weights": a dark row next to bright rows)
    wcases = [(wkind, "gaussian", bs) for wkind in ["inverse", "c_over_B", "random2d", "inverse_decades", "c_over_B_decades"] for bs in (1, 2, 3)]
    wcases += [("inverse_decades", "poisson", bs) for bs in (1, 2)]
    wkinds = ["inverse", "c_over_B", "random2d", "inverse_decades", "c_over_B_decades"]
    single_cache = {}
    for wkind, model, bs in wcases:
        wi = wkinds.index(wkind)
        # the under-determined 3x4 system, and the same case on a randomly drawn system of full column rank (3x3, 3x2, 3x1): there
        # in-gamut rows have unique intensities (an implementation may treat them apart from the out-of-gamut rows of the same call)
        xs_ = SHAPES[1 + int(R.rng(33, wi, bs, 0 if model == "gaussian" else 1).integers(3))]
        for sysname in ("under", xs_):
            S_ = SYS[sysname]; Aw = S_["A"]; nsw = S_["ns"]; ubw = S_["ub"]
            k = "weights:%s:bs=%d" % (wkind, bs) if model == "gaussian" else "weights:%s:%s:bs=%d" % (wkind, model, bs)
            if sysname != "under":
                k += ":" + sysname
            if not R.want(k):
                continue
            n = 4
            lbw = S_["lb"]
            if wkind.endswith("_decades"):
                lbw = np.zeros(nsw)
            if sysname == "under":
                rng = R.rng(13, wi)
                Xt = dyadic(rng, 0.25, 1.75, 3, size=(n, nsw))
            else:
                rng = R.rng(13, wi, SHAPES.index(sysname))
                Xt = lbw + dyadic(rng, 0.125, 0.875, 3, size=(n, nsw)) * (ubw - lbw)     # within the bounds: rows 0 and 3 start in gamut
            Bw = Xt @ Aw.T
            Bw[1] = Bw[1] * np.array([2.5, 0.5, 1.5]); Bw[2] = Bw[2] * np.array([0.5, 3.0, 1.0])   # out of gamut
            if wkind.endswith("_decades"):
                # rows of very different brightness in one call (a high-dynamic-range image; exact powers of two). Lower bounds 0, so
                # that a dark target is dark-reachable and only its hue is out of gamut: all weighted (relative) residuals are O(1)
                Bw[3] = Bw[3] * np.array([1.5, 2.0, 0.5])     # rows 1, 2, 3 out of gamut, row 0 reachable
                Bw = Bw * np.array([1.0, 2.0 ** -12, 2.0 ** -7, 4.0])[rng.permutation(n)][:, None]
            if wkind.startswith("inverse"):
                Wm = "inverse"; Wrows = 1.0 / Bw
            elif wkind.startswith("c_over_B"):
                Wrows = np.array([2.0, 2.0, 2.0, 0.5])[:, None] / Bw; Wm = Wrows
            else:
                Wrows = dyadic(rng, 0.25, 2, 2, size=(n, nf)); Wm = Wrows
            c = dict(k=k, weights=wkind, model=model, system=sysname, batch_size=bs, A=Aw, B=Bw, W=Wrows, lb=lbw, ub=ubw)
            R.count("weights:" + wkind); R.count("weights-model:" + model); R.count("weights-system:%s(%dx%d)" % (sysname, nf, nsw))
            count_mix("weights", in_gamut(Aw, 0.0, Bw, lbw, ubw))
            rngg = R.rng(23, wi, bs, 0 if model == "gaussian" else 1) if sysname == "under" else R.rng(23, wi, bs, 0 if model == "gaussian" else 1, SHAPES.index(sysname))
            Bwg = as_given(rngg, Bw, R, "Bw")
            Wmg = Wm if isinstance(Wm, str) else as_given(rngg, Wm, R, "W2d")

            def joint(*watched):
                return lsq_linear(Aw, Bwg, lb=lbw, ub=ubw, W=Wmg, batch_size=bs, model=model, return_pred=True, solver="CLARABEL")[1]

            def single():
                return np.vstack([lsq_linear(Aw, Bw[i:i + 1], lb=lbw, ub=ubw, W=Wrows[i:i + 1], batch_size=1, model=model, return_pred=True, solver="CLARABEL")[1] for i in range(n)])
            st, oj = call(joint, *[a for a in (Bwg, Wmg) if isinstance(a, np.ndarray)])
            if (wkind, model, sysname) not in single_cache:      # the row-by-row reference does not depend on the batch size of the joint call
                single_cache[(wkind, model, sysname)] = call(single)
            st2, os_ = single_cache[(wkind, model, sysname)]
            R.case(c, ("weights", wkind, model, bs) if sysname == "under" else ("weights", wkind, model, bs, sysname), sample=(bs == 2 and wkind == "c_over_B"))
            if st != "ok" or st2 != "ok":
                R.failB(dict(c, impl_error=[oj, os_]), "fit with per-sample weights failed: %s %s" % (oj, os_), "C05:%s:weights:raises:%s" % (model, st if st != "ok" else st2)); continue
            # solver accuracy as in the grid: 2e-4 (gaussian) / 1e-2 (poisson) capture units, set for targets of size ~10. The rows of
            # the *_decades kinds have sizes from 1e-3 to 1e2 and relative weights (W ~ 1/B: the objective is the relative error), so
            # the same accuracy is asked relative to each row's own size: 2e-5 / 5e-3 of the row's largest target
            if wkind.endswith("_decades"):
                tolw = (5e-3 if model == "poisson" else 2e-5) * np.abs(Bw).max(axis=1)
            else:
                tolw = np.full(n, 1e-2 if model == "poisson" else 2e-4)
            dev = np.abs(oj - os_).max(axis=1)
            if os.environ.get("VERIF_DEBUG"):
                print("DEBUG", k, "rel dev per row", (dev / np.abs(Bw).max(axis=1)).tolist(), "abs", dev.tolist(), file=sys.stderr)
            if np.any(dev > tolw):
                R.failB(dict(c, joint=oj, row_by_row=os_), "with per-sample weights (%s) the joint fit differs from fitting each row alone (max diff %.3g, rows %s, row sizes %s)"
                        % (wkind, float(dev.max()), np.flatnonzero(dev > tolw).tolist(), np.abs(Bw).max(axis=1).tolist()), "C05:%s:weights-row-dependence:%s" % (model, wkind))

    # metamorphic: permute / duplicate / drop / append rows (the weight rows of per-sample weights move with their target rows)
    mcases = [(model, bs, "under", "channel") for model in ["gaussian", "poisson"] + ([] if quick else ["minvar"]) for bs in (1, 2, 3)]
    # ... with one weight vector per sample, on a randomly drawn system shape (gaussian: every batch size; poisson: one, all in the thorough tier)
    pbs = int(R.rng(35).integers(1, 4))
    for model in ("gaussian", "poisson"):
        for bs in (1, 2, 3):
            if model == "gaussian" or not quick or bs == pbs:
                mcases.append((model, bs, SHAPES[int(R.rng(34, bs, 0 if model == "gaussian" else 1).integers(4))], "per-sample"))
    for model, bs, sysname, wmode in mcases:
        if True:
            plain = (sysname == "under" and wmode == "channel")
            k = "meta:%s:bs=%d" % (model, bs) + ("" if plain else ":%s:%s" % (sysname, wmode))
            if not R.want(k):
                continue
            S_ = SYS[sysname]
            rng = R.rng(9, bs) if plain else R.rng(9, bs, SHAPES.index(sysname), 1)
            n = 5
            B, _ = targets(n, rng, sysname)
            perm = rng.permutation(n)
            variants = {"permute": perm, "duplicate": np.array([0, 1, 1, 2, 3, 4, 0]), "drop": np.array([0, 2, 4]), "append": np.arange(n)}
            Bapp = targets(2, R.rng(11, bs), sysname)[0]
            Wm = None; Wapp = None
            if wmode == "per-sample":
                Wm = dyadic(rng, 0.25, 2, 2, size=(n, nf)); Wapp = dyadic(rng, 0.25, 2, 2, size=(2, nf))
            c = dict(k=k, model=model, system=sysname, batch_size=bs, A=S_["A"], lb=S_["lb"], ub=S_["ub"], K=K, baseline=base, weights=wmode, W=(w if Wm is None else Wm), B=B)
            R.count("meta:" + model); R.count("meta-weights:" + wmode); R.count("meta-system:%s(%dx%d)" % (sysname, nf, S_["ns"]))
            count_mix("meta", in_gamut(S_["Ap"], bp, B, S_["lb"], S_["ub"]))
            st, base_out = call(fit, model, B, bs, sysname, Wm)
            R.case(c, ("meta", model, bs) if plain else ("meta", model, bs, sysname, wmode), sample=False)
            if st != "ok":
                R.failB(dict(c, impl_error=base_out), "fit failed: %s" % base_out, "C05:%s:raises:%s:%s" % (model, st, "bs>1" if bs > 1 else "bs=1")); continue
            for name, idx in variants.items():
                B2 = B[idx] if name != "append" else np.vstack([B, Bapp])
                rr = R.rng(25, bs, ["gaussian", "poisson", "minvar"].index(model), sorted(variants).index(name)) if plain else \
                    R.rng(25, bs, ["gaussian", "poisson", "minvar"].index(model), sorted(variants).index(name), SHAPES.index(sysname), 1)
                B2 = as_given(rr, B2, R, "Bmeta")
                W2 = None
                if Wm is not None:
                    W2 = as_given(rr, Wm[idx] if name != "append" else np.vstack([Wm, Wapp]), R, "Wmeta")
                vb = int(rr.random() < 0.4)
                R.count("meta-verbose:%d" % vb)
                st2, o2 = call(quiet, fit, model, B2, bs, sysname, W2, verbose=vb)
                if st2 != "ok":
                    R.failB(dict(c, variant=name, verbose=vb, impl_error=o2), "fit of %s rows (verbose=%d) failed: %s" % (name, vb, o2), "C05:%s:raises:%s:%s" % (model, st2, "bs>1" if bs > 1 else "bs=1")); continue
                exp = base_out[1][idx] if name != "append" else base_out[1]
                got = o2[1] if name != "append" else o2[1][:n]
                if np.abs(got - exp).max() > (1e-2 if model == "poisson" else 2e-4):
                    R.failB(dict(c, variant=name, rows=idx, impl=o2[1], expected=exp), "%s of target rows did not %s the result rows (max diff %.3g)" % (name, name, float(np.abs(got - exp).max())),
                            "C05:%s:metamorphic-%s:%s" % (model, name, "bs>1" if bs > 1 else "bs=1"))
