"""C05 — samples are fitted independently; batch size never changes or breaks a result."""
import os
import sys
import numpy as np
from common import F, rs, vs, ms, dyadic, close, call
from systems import gen_A, gen_K, gen_baseline, apply_K


def drain():
    from dreye import _verif
    return _verif.drain()


def batch_text(b):
    return "none" if b is None else ("full" if b == "full" else str(b))


def run(R):
    import cvxpy as cp
    from dreye.api.optimize.lsq_linear import lsq_linear, lsq_linear_excitation, lsq_linear_minimize
    quick = R.tier == "quick"
    NMAX = 5 if quick else 9
    R.rule = ("exhaustive grid: every sample count n in 1..%d x every batch size in 1..n+2, 'full', None, for the gaussian, "
              "poisson, excitation and variance-minimisation procedures on an underdetermined 3x4 system with K, baseline and "
              "weights; rows pairwise distinct, in- and out-of-gamut mixed; the hook-recorded (batch idx, padded, rows written) "
              "sequence is compared literally with the Lean batchPlan; results of every batch size are compared with batch "
              "size 1; plus row permutation / duplication / drop / append. Non-trivial: n mod bs != 0 or bs > n (padded path) "
              "with distinct rows." % NMAX)
    rng0 = R.rng(0)
    nf, ns = 3, 4
    A = gen_A(rng0, nf, ns)
    kk, K = gen_K(rng0, nf, kinds=("vector",))
    bk, base = gen_baseline(rng0, nf, kinds=("vector",))
    lb = np.zeros(ns); ub = np.ones(ns) * 2.0
    w = np.array([1.0, 2.0, 0.5])
    Ap, bp = apply_K(A, K, base)

    def targets(n, rng):
        Xt = dyadic(rng, 0.25, 1.75, 3, size=(n, ns))
        B = Xt @ Ap.T + bp
        out = rng.random(n) < 0.4
        B[out] = B[out] * np.array([3.0, 0.5, 2.0])    # pushed out of the gamut, hue changed
        return B, out
    models = ["gaussian", "poisson", "excitation", "minvar"]

    def fit(model, B, bs, **kw):
        if model in ("gaussian", "poisson"):
            return lsq_linear(A, B, lb=lb, ub=ub, W=w, K=K, baseline=base, batch_size=bs, model=model, return_pred=True, solver="CLARABEL", **kw)
        if model == "excitation":
            return lsq_linear_excitation(A, B, lb=lb, ub=ub, W=None, K=K, baseline=np.zeros(nf), batch_size=bs, return_pred=True, solver="CLARABEL", **kw)
        return lsq_linear_minimize(A, B, None, lb=lb, ub=ub, W=w, K=K, baseline=base, batch_size=bs, return_pred=True, l2_eps=1e-3, solver="CLARABEL", **kw)[:2]

    def excit_obj(Bt, Bp):
        e = lambda q: q / (1 + q)
        return np.max(np.abs(e(Bt) - e(Bp)), axis=-1)

    grid = []
    for n in range(1, NMAX + 1):
        for bs in list(range(1, n + 3)) + ["full", None]:
            grid.append((n, bs))
    ref = {}
    reqs = []
    for gi, (n, bs) in enumerate(grid):
        for model in models:
            R.driver.ask("p%d_%s" % (gi, model), "batchplan", model, n, batch_text(bs))
    R.driver.run()
    for gi, (n, bs) in enumerate(grid):
        B, outmask = targets(n, R.rng(7, n))
        for model in models:
            t = R.driver.get("p%d_%s" % (gi, model))
            bsz = t.nat(); nw = t.nat()
            plan = [(t.nat(), t.bool(), t.nat(), t.nat()) for _ in range(nw)]
            k = "%s:n=%d:bs=%s" % (model, n, batch_text(bs))
            if not R.want(k):
                continue
            if model in ("excitation", "minvar") and quick and n > 4:
                continue
            c = dict(k=k, model=model, n=n, batch_size=batch_text(bs), A=A, K=K, baseline=base, lb=lb, ub=ub, w=w, B=B)
            R.count("model:" + model)
            padded = any(p[1] for p in plan)
            R.count("padded:%s" % padded)
            drain()
            st, out = call(fit, model, B, bs)
            ev = [e for e in drain() if e["event"] == "batch"]
            nontriv = (model, n, batch_text(bs)) if (padded and n >= 1) else None
            R.case(c, nontriv, sample=(nontriv is not None and model == "gaussian" and n == 4))
            sig = "C05:%s" % model
            if st != "ok":
                cls = "bs>n" if (isinstance(bs, int) and bs > n) else ("bs>1" if (bsz > 1) else "bs=1")
                R.failB(dict(c, impl_error=out), "fit with n=%d, batch_size=%s failed: %s" % (n, batch_text(bs), out), sig + ":raises:%s:%s" % (st, cls))
                continue
            # A: the scatter bookkeeping recorded by the hook equals the model's plan
            site = "lsq_linear_minimize" if model == "minvar" else "_solve_problem"
            got = [(e["idx"], bool(e["padded"]), e["start"], e["stop"]) for e in ev if e["site"] == site]
            if got != plan:
                R.failA(c, "recorded batch sequence %s differs from batchPlan %s" % (got, plan))
            X, Bp = out
            key = (model, n)
            if bsz == 1 and key not in ref:
                ref[key] = (np.array(X), np.array(Bp))
            reqs.append((c, model, n, bs, bsz, np.array(X), np.array(Bp), B, outmask))
    for c, model, n, bs, bsz, X, Bp, B, outmask in reqs:
        if (model, n) not in ref:
            st1, o1 = call(fit, model, B, 1)
            if st1 != "ok":
                continue
            ref[(model, n)] = (np.array(o1[0]), np.array(o1[1]))
        X1, Bp1 = ref[(model, n)]
        sig = "C05:%s" % model
        cls = "bs>1" if bsz > 1 else "bs=1"
        # solver accuracy: exponential-cone (poisson) and bisection (excitation) solves are only accurate to ~1e-3
        tol = {"excitation": 2e-2, "poisson": 1e-2, "minvar": 1e-3}.get(model, 2e-4)   # minvar: a cone problem whose own tolerance l2_eps is 1e-3
        if os.environ.get("VERIF_DEBUG"):
            print("DEBUG", c["k"], float(np.abs(Bp - Bp1).max()), outmask.tolist(), file=sys.stderr)
        if X.shape != X1.shape or Bp.shape != Bp1.shape:
            R.failB(dict(c, impl=[X, Bp]), "result shapes differ from batch size 1", sig + ":shape:" + cls); continue
        if np.any(X < lb - 1e-6) or np.any(X > ub + 1e-6):
            R.failB(dict(c, impl=[X, Bp]), "intensities out of bounds", sig + ":bounds:" + cls); continue
        if model == "excitation":
            o, o1 = excit_obj(B, Bp), excit_obj(B, Bp1)
            # the objective lives in excitation units q/(1+q), which saturate: 1e-4 there is ~1e-2 capture units
            bad = np.abs(o - o1) > 1e-4
            if np.any(bad):
                R.failB(dict(c, impl=[X, Bp], ref_bs1=[X1, Bp1], objective=[o, o1]),
                        "excitation objective per row %s differs from the batch-size-1 result %s (rows %s)" % (o.tolist(), o1.tolist(), np.flatnonzero(bad).tolist()),
                        sig + ":differs-from-bs1:" + cls)
        else:
            bad = np.abs(Bp - Bp1).max(axis=1) > tol
            if np.any(bad):
                R.failB(dict(c, impl=[X, Bp], ref_bs1=[X1, Bp1]),
                        "predicted captures of rows %s differ from the batch-size-1 result by %.3g" % (np.flatnonzero(bad).tolist(), float(np.abs(Bp - Bp1).max())),
                        sig + ":differs-from-bs1:" + cls)

    # per-sample weights: a joint fit must equal the row-by-row fits (each row alone with its own weight row),
    # also when the products target*weight coincide on neighbouring rows (W = c / B, W = 'inverse')
    for wi, wkind in enumerate(["inverse", "c_over_B", "random2d"]):
        for bs in (1, 2):
            k = "weights:%s:bs=%d" % (wkind, bs)
            if not R.want(k):
                continue
            rng = R.rng(13, wi)
            n = 4
            Xt = dyadic(rng, 0.25, 1.75, 3, size=(n, ns))
            Bw = Xt @ A.T
            Bw[1] = Bw[1] * np.array([2.5, 0.5, 1.5]); Bw[2] = Bw[2] * np.array([0.5, 3.0, 1.0])   # out of gamut
            if wkind == "inverse":
                Wm = "inverse"; Wrows = 1.0 / Bw
            elif wkind == "c_over_B":
                Wrows = np.array([2.0, 2.0, 2.0, 0.5])[:, None] / Bw; Wm = Wrows
            else:
                Wrows = dyadic(rng, 0.25, 2, 2, size=(n, nf)); Wm = Wrows
            c = dict(k=k, weights=wkind, batch_size=bs, A=A, B=Bw, W=Wrows)
            R.count("weights:" + wkind)

            def joint():
                return lsq_linear(A, Bw, lb=lb, ub=ub, W=Wm, batch_size=bs, return_pred=True, solver="CLARABEL")[1]

            def single():
                return np.vstack([lsq_linear(A, Bw[i:i + 1], lb=lb, ub=ub, W=Wrows[i:i + 1], batch_size=1, return_pred=True, solver="CLARABEL")[1] for i in range(n)])
            st, oj = call(joint); st2, os_ = call(single)
            R.case(c, ("weights", wkind, bs), sample=(bs == 2 and wkind == "c_over_B"))
            if st != "ok" or st2 != "ok":
                R.failB(dict(c, impl_error=[oj, os_]), "fit with per-sample weights failed: %s %s" % (oj, os_), "C05:gaussian:weights:raises:%s" % (st if st != "ok" else st2)); continue
            if np.abs(oj - os_).max() > 2e-4:
                R.failB(dict(c, joint=oj, row_by_row=os_), "with per-sample weights (%s) the joint fit differs from fitting each row alone (max diff %.3g, rows %s)"
                        % (wkind, float(np.abs(oj - os_).max()), np.flatnonzero(np.abs(oj - os_).max(axis=1) > 2e-4).tolist()), "C05:gaussian:weights-row-dependence:%s" % wkind)

    # metamorphic: permute / duplicate / drop / append rows
    for model in ["gaussian", "poisson"] + ([] if quick else ["minvar"]):
        for bs in (1, 2, 3):
            k = "meta:%s:bs=%d" % (model, bs)
            if not R.want(k):
                continue
            rng = R.rng(9, bs)
            n = 5
            B, _ = targets(n, rng)
            perm = rng.permutation(n)
            variants = {"permute": perm, "duplicate": np.array([0, 1, 1, 2, 3, 4, 0]), "drop": np.array([0, 2, 4]), "append": np.arange(n)}
            c = dict(k=k, model=model, batch_size=bs, B=B)
            R.count("meta:" + model)
            st, base_out = call(fit, model, B, bs)
            R.case(c, ("meta", model, bs), sample=False)
            if st != "ok":
                R.failB(dict(c, impl_error=base_out), "fit failed: %s" % base_out, "C05:%s:raises:%s:%s" % (model, st, "bs>1" if bs > 1 else "bs=1")); continue
            for name, idx in variants.items():
                B2 = B[idx] if name != "append" else np.vstack([B, targets(2, R.rng(11, bs))[0]])
                st2, o2 = call(fit, model, B2, bs)
                if st2 != "ok":
                    R.failB(dict(c, variant=name, impl_error=o2), "fit of %s rows failed: %s" % (name, o2), "C05:%s:raises:%s:%s" % (model, st2, "bs>1" if bs > 1 else "bs=1")); continue
                exp = base_out[1][idx] if name != "append" else base_out[1]
                got = o2[1] if name != "append" else o2[1][:n]
                if np.abs(got - exp).max() > (1e-2 if model == "poisson" else 2e-4):
                    R.failB(dict(c, variant=name, rows=idx, impl=o2[1], expected=exp), "%s of target rows did not %s the result rows (max diff %.3g)" % (name, name, float(np.abs(got - exp).max())),
                            "C05:%s:metamorphic-%s:%s" % (model, name, "bs>1" if bs > 1 else "bs=1"))
