"""shared pieces for the fit properties (C04, C05, C07, C09, C15): well-scaled systems, targets, exact optimum certification"""
import numpy as np
from fractions import Fraction
from common import F, rs, vs, ms, dyadic, close
from systems import gen_A, gen_K, gen_baseline, apply_K
import exactqp


def K_text(K):
    if K is None:
        return "noK"
    K = np.atleast_1d(K)
    return ("vec " + vs(K)) if K.ndim == 1 else ("mat " + ms(K))


def ub_text(ub):
    return " ".join([str(len(ub))] + ["inf" if not np.isfinite(u) else rs(u) for u in ub])


def gen_wellscaled(rng, nf=None, ns=None, ub_kinds=("finite", "finite", "inf"), lb_kinds=("zero", "zero", "pos"),
                   K_kinds=("none", "scalar", "vector", "matrix"), base_kinds=("zero", "scalar", "vector"), matrix_nonneg=True):
    """system in the well-scaled regime of C04: extent and targets 1..100, bounds in [0.05, 10], cond <= 1e3"""
    for _ in range(200):
        nf_ = int(rng.integers(1, 6)) if nf is None else nf
        ns_ = int(rng.integers(1, 9)) if ns is None else ns
        A = gen_A(rng, nf_, ns_, lo=0.5, hi=6.0, bits=2)
        kk, K = gen_K(rng, nf_, kinds=K_kinds)
        bk, base = gen_baseline(rng, nf_, kinds=base_kinds)
        ubk = str(rng.choice(list(ub_kinds))); lbk = str(rng.choice(list(lb_kinds)))
        ub = dyadic(rng, 1, 10, 2, size=ns_) if ubk == "finite" else np.full(ns_, np.inf)
        lb = np.zeros(ns_) if lbk == "zero" else dyadic(rng, 0.0625, 0.5, 4, size=ns_)
        Ap, bp = apply_K(A, K, base)
        try:
            cond = np.linalg.cond(Ap)
        except Exception:  # noqa: BLE001
            continue
        ubf = np.where(np.isfinite(ub), ub, 10.0)
        ext = (np.abs(Ap) * (ubf - lb)).sum(axis=1)
        if cond <= 1e3 and np.all(ext >= 1) and np.all(ext <= 100) and np.all(Ap >= 0):
            return dict(nf=nf_, ns=ns_, A=A, K=K, K_kind=kk, baseline=base, baseline_kind=bk, lb=lb, ub=ub, ub_kind=ubk, lb_kind=lbk,
                        Ap=Ap, bp=bp, cond=float(cond))
    raise RuntimeError("no well-scaled system found")


def gen_target(rng, S, kind):
    """one target row of the requested class (exactly representable)"""
    lb, ub, Ap, bp = S["lb"], S["ub"], S["Ap"], S["bp"]
    ubf = np.where(np.isfinite(ub), ub, lb + 4.0)
    t = dyadic(rng, 0.125, 0.875, 3, size=S["ns"])
    x = lb + t * (ubf - lb)
    if kind == "inside":
        return Ap @ x + bp
    if kind == "boundary":
        m = rng.random(S["ns"]) < 0.5
        x = np.where(m, np.where(rng.random(S["ns"]) < 0.5, lb, ubf), x)
        return Ap @ x + bp
    if kind == "vertex":
        x = np.where(rng.random(S["ns"]) < 0.5, lb, ubf)
        return Ap @ x + bp
    if kind == "outside":
        b = Ap @ x + bp
        f = dyadic(rng, 0.25, 4, 2, size=S["nf"])
        f[rng.integers(S["nf"])] = 4.0
        return np.clip(b * f + 1.0, 1.0, 100.0)
    if kind == "below_baseline":
        b = Ap @ x + bp
        c = rng.integers(S["nf"])
        b[c] = float(bp[c]) - float(dyadic(rng, 0.25, 1, 2)) if bp[c] > 0 else -float(dyadic(rng, 0.25, 1, 2))
        return b
    raise ValueError(kind)


def parse_prep(T):
    C = T.mat(); d = T.vec(); Ap = T.mat(); bp = T.vec()
    return C, d, Ap, bp


def certify_rows(R, tag, rows):
    """rows: list of dict(n, K, A, baseline, w, b, lb, ub, xhat). Adds to each row: C, d, Ap, bp (exact), xstar, fstar, kkt_ok,
    fhat (objective at the exact rational value of xhat), gap (FW gap at clipped xhat, or None)."""
    for i, r in enumerate(rows):
        R.driver.ask("%s_p%d" % (tag, i), "prep", r["n"], K_text(r["K"]), ms(r["A"]), vs(np.atleast_1d(r["baseline"])), vs(r["w"]), vs(r["b"]))
    R.driver.run()
    for i, r in enumerate(rows):
        r["C"], r["d"], r["Ap"], r["bp"] = parse_prep(R.driver.get("%s_p%d" % (tag, i)))
        r["lbF"] = [F(v) for v in r["lb"]]
        r["ubF"] = [None if not np.isfinite(v) else F(v) for v in r["ub"]]
        r["cands"] = []
        for tau in (1e-4, 1e-6, 1e-2, 1e-8):
            try:
                xs = exactqp.candidate_optimum(r["C"], r["d"], r["lbF"], r["ubF"], r["xhat"], tau)
            except Exception:  # noqa: BLE001
                xs = None
            if xs is not None and xs not in r["cands"]:
                r["cands"].append(xs)
        for j, xs in enumerate(r["cands"]):
            R.driver.ask("%s_k%d_%d" % (tag, i, j), "kkt", r["n"], ms(r["C"]), vs(r["d"]), vs(r["lb"]), ub_text(r["ub"]), vs(xs))
        xc = np.clip(r["xhat"], r["lb"], r["ub"])
        R.driver.ask("%s_g%d" % (tag, i), "fwgap", r["n"], ms(r["C"]), vs(r["d"]), vs(r["lb"]), ub_text(r["ub"]), vs(xc))
        R.driver.ask("%s_f%d" % (tag, i), "lsobj", ms(r["C"]), vs(r["d"]), vs(r["xhat"]))
    R.driver.run()
    for i, r in enumerate(rows):
        r["kkt_ok"] = False; r["xstar"] = None; r["fstar"] = None
        for j, xs in enumerate(r["cands"]):
            t = R.driver.get("%s_k%d_%d" % (tag, i, j))
            ok = t.bool(); fv = t.rat()
            if ok:
                r["kkt_ok"] = True; r["xstar"] = xs; r["fstar"] = fv
                break
        t = R.driver.get("%s_g%d" % (tag, i))
        inb = t.bool(); g = t.tok(); fclip = t.rat()
        r["gap"] = None if g == "none" else (F(0) + __import__("common").parse_rat(g))
        r["fclip"] = fclip
        r["fhat"] = R.driver.get("%s_f%d" % (tag, i)).rat()
        R.cert(r["kkt_ok"] or r["gap"] is not None)
    return rows


def fsqrt(fr):
    """float sqrt of a non-negative Fraction"""
    return float(fr) ** 0.5 if fr > 0 else 0.0
