"""validate MANIFEST.json and evidence/*.json against the task's schemas (run with python3-vt: needs jsonschema), plus the
proof-level rule: on a run without violation every obligation is discharged."""
import json, sys, glob, os
import jsonschema

here = os.path.dirname(os.path.dirname(os.path.abspath(__file__)))
bad = 0
m = json.load(open(os.path.join(here, "MANIFEST.json")))
jsonschema.validate(m, json.load(open("/root/.vp/MANIFEST.schema.json")))
es = json.load(open("/root/.vp/EVIDENCE.schema.json"))
claimed = {c["property_id"] for c in m["checks"]}
for pid in sorted(claimed):
    p = os.path.join(here, "evidence", pid + ".json")
    if not os.path.exists(p):
        print("MISSING evidence", pid); bad += 1; continue
    e = json.load(open(p))
    try:
        jsonschema.validate(e, es)
    except jsonschema.ValidationError as ex:
        print("INVALID", pid, str(ex)[:200]); bad += 1; continue
    cov = e["coverage"]
    if e.get("violations", 0) != 0:
        print("VIOLATIONS in committed evidence", pid, e["violations"]); bad += 1
    if cov.get("obligations") != cov.get("discharged"):
        print("discharged != obligations", pid, cov.get("discharged"), cov.get("obligations")); bad += 1
    if cov.get("distinct_nontrivial", 0) <= 0 or not cov.get("samples"):
        print("no non-trivial cases / samples", pid); bad += 1
print("manifest ok, %d evidence files checked, %d problems" % (len(claimed), bad))
sys.exit(1 if bad else 0)
