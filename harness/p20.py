"""C20 — irradiance <-> photon-flux conversion is the physical law and its exact inverse."""
import numpy as np
from common import F, rs, vs, ms, dyadic, close, call

from fractions import Fraction as Fr

PREF = {"": 0, "milli": 3, "micro": 6, "nano": 9}
# dimensionally compatible ways of writing the same quantities: (pint unit, exact factor to the canonical unit I / E / nm)
IRR_UNITS = [("mW/m**2/nm", Fr(1, 1000)), ("uW/cm**2/nm", Fr(1, 100)), ("W/m**2/um", Fr(1, 1000)), ("milliI", Fr(1, 1000)),
             ("kW/m**2/nm", Fr(1000)), ("W/cm**2/nm", Fr(10000))]
FLUX_UNITS = [("microE", Fr(1, 10 ** 6)), ("umol/m**2/s/nm", Fr(1, 10 ** 6)), ("milliE", Fr(1, 1000)), ("nanoE", Fr(1, 10 ** 9)),
              ("mol/cm**2/s/nm", Fr(10000)), ("mol/m**2/s/um", Fr(1, 1000))]
LAM_UNITS = [("um", Fr(1000)), ("m", Fr(10 ** 9)), ("angstrom", Fr(1, 10)), ("mm", Fr(10 ** 6))]


def run(R):
    import dreye
    from dreye.api.units.pint import ureg
    n = 150 if R.tier == "quick" else 3000
    R.rule = ("wavelengths 100-2000 nm (half-nanometre values, a fine dyadic grid 2^-20 nm, arbitrary float64 values: calibration "
              "polynomial of a spectrometer / uniform random; stored ascending, descending or shuffled), spectra scalar / 1-D / N-D (wavelength on any axis via axis=, the axis named from the front "
              "(0..rank-1) or from the end (-rank..-1), as python int or numpy integer; or last-axis "
              "broadcasting), prefixes ''/milli/micro/nano, plain arrays, plain arrays with irr_units=/flux_units=, pint quantities "
              "in the canonical units (I, E, nm) and in compatible other units (mW/m^2/nm, uW/cm^2/nm, W/m^2/um, kW.., microE, "
              "umol/m^2/s/nm, mol/cm^2/s/nm, ..; wavelengths in um, m, mm, angstrom), both directions, return_units= left at its default or stated True / False (for plain and "
              "unit-carrying spectra, with and without axis=, every prefix: the physical value of whatever container comes back is the law), the numeric round trip and "
              "the returned (prefixed) quantity fed back into the inverse; identically-zero spectra at some pixels (the first pixel included); unit-less spectrum arrays as float64, whole-number counts in uint16/int32/int64, Fortran order, strided view or nested list (the model receives the values); the model receives the physical values in I/E/nm; compared with the exact-rational model (exact SI constants) at rtol 1e-12. Non-trivial: "
              ">=2 wavelengths with distinct values and a non-constant spectrum.")
    RT = 1e-12
    cases = []
    for k in range(n):
        if not R.want(k):
            continue
        rng = R.rng(1, k)
        direction = str(rng.choice(["irr2flux", "flux2irr"]))
        pre = str(rng.choice(list(PREF)))
        shape = str(rng.choice(["scalar", "1d", "nd_axis", "nd_last"]))
        units = bool(rng.integers(2))
        nl = int(rng.integers(2, 7))
        lam = np.sort(dyadic(rng, 100, 2000, 1, size=nl))
        # how fine the wavelength grid is: half-nanometre values (as above), a fine dyadic grid (2^-20 nm), or arbitrary
        # float64 values - the calibration polynomial pixel -> wavelength of a grating spectrometer, or uniform random values;
        # and the order it is stored in (the conversion acts element by element: ascending, descending or any order)
        rg = R.rng(5, k)
        grid = str(rg.choice(["half-nm", "half-nm", "fine-dyadic", "calibrated", "arbitrary-float"]))
        if grid == "fine-dyadic":
            lam = np.sort(dyadic(rg, 100, 2000, 20, size=nl))
        elif grid == "calibrated":
            pix = np.sort(rg.permutation(2048)[:nl]).astype(np.float64)
            a0 = float(rg.uniform(100.0, 400.0)); a1 = float(rg.uniform(0.2, 0.7)); a2 = float(rg.uniform(-2e-5, 2e-5))
            lam = a0 + a1 * pix + a2 * pix ** 2
        elif grid == "arbitrary-float":
            lam = np.sort(rg.uniform(100.0, 2000.0, size=nl))
        assert np.all(lam >= 100.0) and np.all(lam <= 2000.0)
        order = str(rg.choice(["ascending", "ascending", "descending", "shuffled"]))
        if order == "descending":
            lam = lam[::-1].copy()
        elif order == "shuffled":
            lam = lam[rg.permutation(nl)]
        R.count("wavelength-grid:%s" % grid); R.count("wavelength-order:%s" % order)
        if shape == "scalar":
            spec = float(dyadic(rng, -4, 8, 6)); lamv = float(lam[0]); axis = None
        elif shape == "1d":
            spec = dyadic(rng, 0, 8, 6, size=nl); lamv = lam; axis = None
        elif shape == "nd_last":
            spec = dyadic(rng, 0, 8, 6, size=(int(rng.integers(1, 4)), nl)); lamv = lam; axis = None
        else:
            rank = int(rng.integers(2, 4)); shp = [int(rng.integers(1, 4)) for _ in range(rank)]
            axis = int(rng.integers(0, rank)); shp[axis] = nl
            spec = dyadic(rng, 0, 8, 6, size=tuple(shp)); lamv = lam
        axis_arg = axis
        if shape == "nd_axis":
            units = False   # np.apply_along_axis strips quantities
            # how the caller names the wavelength axis: counted from the front (0 .. rank-1), from the end (-rank .. -1: the same
            # axis), as a python int or a numpy integer
            ra = R.rng(4, k)
            how = str(ra.choice(["from-front", "from-end"]))
            axis_arg = axis if how == "from-front" else axis - spec.ndim
            if ra.integers(3) == 0:
                axis_arg = np.int64(axis_arg); how += ":numpy-int"
            R.count("axis-named:%s" % how); R.count("axis-value:%d-of-rank-%d" % (int(axis_arg), spec.ndim))
        # how the quantities are written (the model receives the physical values in I / E / nm as exact rationals):
        #   quantity in the canonical unit | quantity in a compatible other unit | plain numbers with irr_units= / flux_units=
        rv = R.rng(3, k)
        uname = "I" if direction == "irr2flux" else "E"
        sunit, sfac, lunit, lfac = uname, Fr(1), "nm", Fr(1)
        ukind = "plain"
        if units:
            ukind = str(rv.choice(["canonical", "compatible", "compatible"]))
            if ukind == "compatible":
                tab = IRR_UNITS if direction == "irr2flux" else FLUX_UNITS
                which = int(rv.integers(3))    # spectrum, wavelengths or both in another unit
                if which != 1:
                    sunit, sfac = tab[int(rv.integers(len(tab)))]
                if which != 0:
                    lunit, lfac = LAM_UNITS[int(rv.integers(len(LAM_UNITS)))]
        elif rv.integers(3) == 0:
            ukind = "units-argument"
            tab = IRR_UNITS if direction == "irr2flux" else FLUX_UNITS
            sunit, sfac = tab[int(rv.integers(len(tab)))]
        # dark pixels and the representation of the spectrum array (own stream): some of the 1-D spectra along the wavelength axis
        # are identically zero (masked / background pixels; the first one - index 0 of every other axis - half of the time), and a
        # unit-less spectrum array is handed over as float64, as whole-number detector counts in an integer dtype (uint16 / int32 /
        # int64; whole-number values are generated for these), in Fortran order, as a non-contiguous view or as a nested list.
        # The model receives the values only.
        rd = R.rng(6, k)
        rep = "float64"
        if shape != "scalar":
            if not units:
                rep = str(rd.choice(["float64", "uint16", "int32", "int64", "fortran", "strided", "list"]))
            if rep in ("uint16", "int32", "int64"):
                spec = rd.integers(0, 4001, size=spec.shape).astype(np.float64)
            dark = "none"
            if rd.integers(2) == 0:
                wax = spec.ndim - 1 if axis is None else axis
                mv = np.moveaxis(spec, wax, -1)            # view: (pixels..., wavelength)
                npx = int(np.prod(mv.shape[:-1], dtype=int))
                zero = rd.integers(2, size=npx).astype(bool)
                zero[0] = bool(rd.integers(2))
                idx = np.argwhere(zero.reshape(mv.shape[:-1]))
                for ix in idx:
                    mv[tuple(ix)] = 0.0
                dark = ("first" if zero[0] else "not-first") if zero.any() else "none"
            R.count("dark-pixels:%s" % dark)
        R.count("spectrum-representation:%s" % rep)
        spec_mag = spec                                     # the numbers as written in `sunit`
        lam_mag = lamv / float(lfac) if lfac != 1 else lamv  # the numbers as written in `lunit`
        if sfac != 1:
            spec = spec_mag * float(sfac)                   # the same spectrum as plain numbers in I / E (to rounding)
        spec_arg = spec_mag                                 # the representation handed to the implementation
        if rep in ("uint16", "int32", "int64"):
            spec_arg = spec_mag.astype(rep)
        elif rep == "fortran":
            spec_arg = np.asfortranarray(spec_mag)
        elif rep == "strided":
            big = np.zeros(tuple(2 * m for m in spec_mag.shape)); sl = tuple(slice(None, None, 2) for _ in spec_mag.shape)
            big[sl] = spec_mag; spec_arg = big[sl]
        elif rep == "list":
            spec_arg = spec_mag.tolist()
        spec_call = spec_arg if sfac == 1 else spec         # plain numbers in I / E
        c = dict(k=k, spectrum_given_as=rep, direction=direction, prefix=pre, shape=shape, units=units, written_as=ukind, spectrum_unit=sunit, wavelength_unit=lunit,
                 wavelength_grid=grid, wavelength_order=order, spectrum=spec_mag, wavelengths=lam_mag, axis=axis, axis_as_given=(None if axis_arg is None else int(axis_arg)))
        R.count("written-as:%s" % ukind)
        if ukind in ("compatible", "units-argument"):
            R.count("spectrum-unit:%s" % sunit); R.count("wavelength-unit:%s" % lunit)
        for key in ("direction", "prefix", "shape"):
            R.count("%s:%s" % (key, c[key]))
        R.count("units:%s" % units)
        fn = dreye.irr2flux if direction == "irr2flux" else dreye.flux2irr
        back = dreye.flux2irr if direction == "irr2flux" else dreye.irr2flux
        out_unit = (pre + "E") if direction == "irr2flux" else (pre + "spectralirradiance")

        other = str(rng.choice([q for q in PREF if q != pre]))
        c["called_before_with_prefix"] = other
        # the return_units= option of the main call (own stream): left at its default (a quantity comes back iff the spectrum carries
        # units), or stated explicitly True / False - for plain and unit-carrying spectra alike, with and without axis=, with every
        # prefix. Whatever container comes back (a quantity, or plain numbers which by contract are expressed in the requested prefixed
        # unit - np.apply_along_axis may strip a quantity), its physical value is the law.
        ret = str(R.rng(7, k).choice(["default", "default", "True", "False"]))
        c["return_units"] = ret
        R.count("return_units:%s" % ret)
        R.count("return_units:%s:%s:%s" % (ret, "axis" if axis_arg is not None else "no-axis", "prefixed" if pre else "no-prefix"))
        rkw = {} if ret == "default" else {"return_units": ret == "True"}

        def impl():
            # history: the same grid was converted with another prefix just before (results must not depend on it)
            fn(spec_call, lamv, prefix=other, axis=axis_arg)
            arg = spec_mag * ureg(sunit) if units else spec_arg
            lamarg = lam_mag * ureg(lunit) if units else lamv
            ukw = {}
            if ukind == "units-argument":
                ukw = {"irr_units": sunit} if direction == "irr2flux" else {"flux_units": sunit}
            o = fn(arg, lamarg, prefix=pre, axis=axis_arg, **ukw, **rkw)
            o_num = fn(spec_call, lamv, prefix=pre, axis=axis_arg, return_units=False)
            # default: the magnitude as returned (the unit is the prefixed one); explicit return_units: the physical value, expressed
            # in the requested prefixed unit
            mag = (o.magnitude if ret == "default" else o.to(out_unit).magnitude) if hasattr(o, "magnitude") else o
            kw = {"flux_units": out_unit} if direction == "irr2flux" else {"irr_units": out_unit}
            rt = back(np.asarray(o_num), lamv, axis=axis_arg, return_units=False, **kw)
            # the quantity that came out (in the prefixed unit) fed back as it is: the inverse must recover the spectrum
            rtq = back(o, lamarg).to(uname).magnitude if hasattr(o, "units") else None
            return (np.asarray(mag, dtype=float), np.asarray(o_num, dtype=float), np.asarray(rt, dtype=float), hasattr(o, "units"),
                    None if rtq is None else np.asarray(rtq, dtype=float))
        st, out = call(impl)
        # model: flatten to (spec_i, lam_i) pairs
        sp = np.asarray(spec, dtype=float)
        if shape == "scalar":
            S = sp.reshape(1); L = np.array([lamv])
        elif shape in ("1d", "nd_last"):
            L = np.broadcast_to(lam, sp.shape).reshape(-1); S = sp.reshape(-1)
        else:
            shp_b = [1] * sp.ndim; shp_b[axis] = nl
            L = np.broadcast_to(lam.reshape(shp_b), sp.shape).reshape(-1); S = sp.reshape(-1)
        e = PREF[pre]
        # exact physical values of what was handed over: magnitude x unit factor
        Lm = L / float(lfac) if lfac != 1 else L       # same floating operation as lam_mag, element by element
        Sx = [F(v) * sfac for v in (np.asarray(spec_mag, dtype=float).reshape(-1))]
        Lx = [F(v) * lfac for v in Lm]
        R.driver.ask("f%d" % k, direction, 0, e, vs(Sx), vs(Lx))
        cases.append((c, st, out, S, L))
    R.driver.run()
    for c, st, out, S, L in cases:
        k = c["k"]
        nontriv = None
        if len(S) >= 2 and len(set(L.tolist())) >= 2 and len(set(S.tolist())) >= 2:
            nontriv = (c["direction"], c["prefix"], c["shape"], S.tobytes(), L.tobytes())
        R.case(c, nontriv, sample=(nontriv is not None))
        sig = "C20:%s:%s:%s" % (c["direction"], c["shape"], "units" if c["units"] else "plain")
        if st != "ok":
            R.failB(dict(c, impl_error=out), "conversion raised %s: %s" % (st, out), sig + ":raises:" + st)
            continue
        mag, num, rt, has_u, rtq = out
        m = R.driver.get("f%d" % k).vec()
        bad = None
        if mag.shape != np.shape(c["spectrum"]) or num.shape != np.shape(c["spectrum"]):
            bad = "result shape %s/%s differs from input shape %s" % (mag.shape, num.shape, np.shape(c["spectrum"]))
        else:
            for i, (a, b) in enumerate(zip(mag.reshape(-1), num.reshape(-1))):
                if not close(b, m[i], abs(m[i]), RT):
                    bad = bad or "element %d: %r but I*lambda/(h c N_A) law gives %s" % (i, float(b), rs(m[i]))
                if not close(a, m[i], abs(m[i]), RT):
                    bad = bad or "element %d with units: %r differs from plain-array result / law %s" % (i, float(a), rs(m[i]))
            if not np.allclose(rt.reshape(-1), S, rtol=1e-12, atol=0):
                bad = bad or "round trip does not recover the spectrum: %s vs %s" % (rt.reshape(-1)[:4].tolist(), S[:4].tolist())
            if rtq is not None and (rtq.shape != np.shape(c["spectrum"]) or not np.allclose(rtq.reshape(-1), S, rtol=1e-12, atol=0)):
                bad = bad or "the returned quantity fed back into the inverse conversion does not recover the spectrum: %s vs %s" % (rtq.reshape(-1)[:4].tolist(), S[:4].tolist())
            if c["return_units"] == "default" and has_u != c["units"]:
                bad = bad or "return_units default: has units=%s for input with units=%s" % (has_u, c["units"])
            if c["return_units"] == "False" and has_u:
                bad = bad or "return_units=False returned a quantity"
            if c["return_units"] == "True" and c["axis"] is None and not has_u:
                bad = bad or "return_units=True (no axis=) returned plain numbers"
        if bad:
            R.failB(dict(c, impl=num, model=[rs(x) for x in m]), bad, sig)
