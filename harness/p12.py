"""C12 — gamut-corrective scalings keep hue and ratios and land in the chromatic gamut."""
import numpy as np
from common import F, rs, vs, ms, dyadic, close, call, parse_rat, as_given
from systems import gen_A, gen_K, gen_baseline, apply_K
from p17 import in_conv_lp


def nearest_boundary(P, Q, m):
    """indices of the m rows of Q (chromaticities) that are closest to / farthest beyond the boundary of conv(P), ranked with the facet planes of
    an independently computed hull in the first nf-1 coordinates (an interval for dichromats). Only used to CHOOSE which rows of a large
    set are judged by the LP membership test."""
    if P.shape[1] == 2:
        v = np.maximum(Q[:, 0] - P[:, 0].max(), P[:, 0].min() - Q[:, 0])
    else:
        try:
            from scipy.spatial import ConvexHull
            h = ConvexHull(P[:, :-1])
            v = (Q[:, :-1] @ h.equations[:, :-1].T + h.equations[:, -1]).max(1)
        except Exception:  # noqa: BLE001
            v = np.max(np.abs(Q - P.mean(0)), axis=1)
    return [int(i) for i in np.argsort(v)[-m:]]


def run(R):
    import dreye
    nsys = 40 if R.tier == "quick" else 500
    R.rule = ("systems with 2-4 receptors (dichromats included), finite ub, lower bounds zero or positive (sources that cannot be switched off: 1/16-3/8 of ub, "
              "uniform fraction or per source; the chromatic gamut is then spanned by the captures of all lb/ub corner intensities), K none/scalar/vector or "
              "(a quarter of the systems) a full non-symmetric adaptation MATRIX with off-diagonal entries (the receptors' single-source maxima then come from "
              "mixtures of the receptor signals), baseline 0/scalar/vector; "
              "non-negative target sets mixing chromaticities inside and outside the chromatic gamut, rows below the (non-zero) baseline "
              "capture added to a set and whole dim sets whose negative light-induced parts exceed the largest positive one (mixed-sign "
              "light-induced parts under relative=True), all-zero rows (with targets "
              "outside the gamut and with all other targets already inside), single-target sets, whole-number target sets handed "
              "in with an integer dtype, Fortran-ordered / strided target arrays, default and explicit (non-uniform) neutral "
              "points inside the gamut, relative and absolute capture; one system in ten additionally (case <k>_L) with a LARGE target set (an image of 4097..12288 rows: non-negative "
              "mixtures of the small set's rows at random brightness, in random order or sorted by saturation -- calm region first; chromatic scaling only; totals, "
              "hue and the common factor are judged on every row, gamut membership by LP on 40 random rows and the 8 rows nearest to the gamut boundary, maximality on the 32 nearest). Call histories: every call on a fresh estimator, or all "
              "calls of a system on ONE estimator -- 1-3 intensity scalings with random relative/absolute flags and the chromatic "
              "scaling in random order (the answers must not depend on earlier calls; registered state is compared before/after "
              "every call). Intensity scaling (every call of the history) is compared with the exact model; for chromatic scaling "
              "the property predicates are evaluated on dreye's output (totals kept, one common positive contraction along the "
              "hue direction from the neutral point, every chromaticity inside the chromatic gamut and the most saturated one on "
              "its boundary, identity when all chromaticities are already inside -- all-zero rows have none). "
              "Non-trivial: >=3 receptors with at least one target outside the chromatic gamut, or a dichromat.")
    jobs = []
    for si in range(nsys):
        k = "s%d" % si
        if not R.want(k):
            continue
        rng = R.rng(1, si)
        nf = int(rng.integers(2, 5)); ns = int(rng.integers(nf, nf + 4))
        A = gen_A(rng, nf, ns, lo=0.0, hi=1.0, bits=3)
        kk, K = gen_K(rng, nf, kinds=("none", "scalar", "vector"))
        # matrix adaptation (documented option: a two-dimensional K mixes the receptor signals; entrywise non-negative, so captures stay
        # non-negative). Own random stream: the other draws of the system stay what they were.
        krng = R.rng(13, si)
        if krng.integers(4) == 0:
            kk, K = gen_K(krng, nf, kinds=("matrix",))
        # target sets with rows BELOW the baseline (dark) capture need a registered non-zero baseline
        mrng = R.rng(9, si)
        below = str(mrng.choice(["none", "none", "none", "dim_set", "added_rows"]))
        bk, base = gen_baseline(rng, nf, kinds=(("zero", "zero", "scalar", "vector") if below == "none" else ("scalar", "vector")))
        ub = dyadic(rng, 0.5, 4, 2, size=ns)
        # lower bounds: zero, or sources with a non-zero minimal intensity (own random stream: the other draws of the system are unchanged)
        lrng = R.rng(11, si)
        lbk = str(lrng.choice(["zero", "zero", "zero", "uniform_fraction", "per_source"]))
        lb = np.zeros(ns) if lbk == "zero" else ub * (float(dyadic(lrng, 0.0625, 0.375, 4)) if lbk == "uniform_fraction" else dyadic(lrng, 0.0625, 0.375, 4, size=ns))
        relative = bool(rng.integers(4) > 0)
        sysd = {True: apply_K(A, K, base), False: (A.copy(), np.zeros(nf))}    # the (A', base') a call with this flag works with
        Ap, bp = sysd[relative]
        filt = np.hstack([np.zeros((nf, 1)), A, np.zeros((nf, 1))]); src = np.hstack([np.zeros((ns, 1)), np.eye(ns), np.zeros((ns, 1))])
        est = lambda: dreye.ReceptorEstimator(filt, domain=1.0, K=(1.0 if K is None else K), baseline=base, sources=src, lb=lb, ub=ub)  # noqa: E731
        # targets: in-gamut captures, desaturated / oversaturated ones, zero row
        X = lb + dyadic(rng, 0.125, 0.875, 3, size=(4, ns)) * (ub - lb)
        Bin = X @ Ap.T + bp
        mode = str(rng.choice(["mixed", "inside", "with_zero", "inside_with_zero", "single"]))
        Bout = Bin.copy()
        if mode not in ("inside", "inside_with_zero"):
            for i in range(len(Bout)):
                cidx = rng.integers(nf)
                Bout[i, cidx] *= float(rng.choice([4.0, 8.0]))     # oversaturate one receptor
                Bout[i, (cidx + 1) % nf] *= 0.25
        Bt = np.vstack([Bin[:2], Bout[2:]]) if mode not in ("inside", "inside_with_zero") else Bin
        if mode in ("with_zero", "inside_with_zero"):
            # all-zero rows anywhere in the set (they have no chromaticity: total 0 must stay 0, the others are scaled as without them)
            for _ in range(int(rng.integers(1, 3))):
                Bt = np.insert(Bt, int(rng.integers(len(Bt) + 1)), 0.0, axis=0)
        if mode == "single":
            Bt = Bt[[int(rng.integers(len(Bt)))]]
        # non-negative targets below the (transformed) baseline capture K*baseline: their light-induced part under relative=True
        # is negative. "added_rows": one or two such rows join the set (the brightest light-induced part stays the largest in
        # magnitude); "dim_set": the whole set is dim -- captures of 2^-4 .. 2^-10 of the in-gamut intensities on top of the
        # baseline, plus rows at 0 .. 1/2 of the baseline --, so that the negative light-induced parts can exceed the largest
        # positive one in magnitude. The common factor is defined by the largest (signed) light-induced part in both cases.
        if below != "none":
            At, bt = sysd[True]
            nb = int(mrng.integers(1, 3))
            frac = dyadic(mrng, 0, 0.5, 3, size=((nb, 1) if mrng.integers(2) else (nb, nf)))
            rows_below = bt * frac
            if below == "dim_set":
                Bt = bt + (X[: int(mrng.integers(1, 4))] @ At.T) * 2.0 ** -int(mrng.integers(4, 11))
            Bt = np.vstack([Bt, rows_below])
            Bt = Bt[mrng.permutation(len(Bt))]
            mode = ("dim+below_baseline" if below == "dim_set" else mode + "+below_baseline")
        # whole-number target sets may be handed in with an integer dtype (values only go to the model)
        whole = bool(rng.integers(5) == 0) and below != "dim_set"
        if whole:
            Bt = np.round(Bt * 4.0)
            if not np.any(Bt > 0):
                Bt[0, 0] = 1.0
        neutral_kind = str(rng.choice(["default", "explicit"]))
        neutral = None
        c = dict(k=k, nf=nf, ns=ns, A=A, K=K, K_kind=kk, baseline=base, baseline_kind=bk, lb=lb, lb_kind=lbk, ub=ub, relative=relative, mode=mode,
                 neutral_kind=neutral_kind, B=Bt, whole=whole)
        if neutral_kind == "default":
            # the default (equal-capture) neutral point must lie inside the chromatic gamut (the property's premise)
            from itertools import product as iprod
            Pc = np.array([p_ / p_.sum() for p_ in (Ap @ (lb + np.array(cr) * (ub - lb)) + bp for cr in iprod([0, 1], repeat=ns)) if p_.sum() > 0])
            ctr = Pc.mean(0); probe = ctr + (np.ones(nf) / nf - ctr) * 1.05
            if not in_conv_lp(Pc, probe, 1e-12):
                neutral_kind = "explicit"; c["neutral_kind"] = "explicit"
        if neutral_kind == "explicit":
            neutral = (Ap @ (lb + (ub - lb) * dyadic(rng, 0.25, 0.75, 2, size=ns)) + bp)    # a capture inside the gamut, non-uniform
            c["neutral_point"] = neutral
        # ---- call history: fresh estimator per call, or every call of this system on one estimator
        hrng = R.rng(7, si)
        history = str(hrng.choice(["fresh", "shared", "shared"]))
        flags = [bool(hrng.integers(2)) for _ in range(int(hrng.integers(0, 3)))] + [relative] + ([True] if (below != "none" and not relative) else [])
        # a flag is usable for this target set when the largest light-induced part is positive (one common POSITIVE factor exists)
        flags = [r for r in flags if float(np.max(Bt - sysd[r][1])) > 0]
        order = ["l1:%d" % i for i in range(len(flags))] + ["dist"]
        if history == "shared":
            order = [order[i] for i in hrng.permutation(len(order))]
        c["history"] = history
        c["calls"] = [("dist" if o == "dist" else "l1(relative=%s)" % flags[int(o[3:])]) for o in order]
        for key in ("K_kind", "baseline_kind", "lb_kind", "mode", "neutral_kind", "history"):
            R.count("%s:%s" % (key, c[key]))
        R.count("nf:%d" % nf); R.count("relative:%s" % relative); R.count("whole_int_targets:%s" % whole)
        for r in sorted(set(flags)):
            li_ = Bt - sysd[r][1]
            R.count("l1-light-induced(relative=%s):%s" % (r, "all>=0" if np.min(li_) >= 0 else ("mixed-sign,largest-positive" if np.max(li_) >= -np.min(li_) else "mixed-sign,largest-negative")))
        R.count("rows:%d" % len(Bt)); R.count("calls_on_one_estimator:%d" % (len(order) if history == "shared" else 1))
        shared = est() if history == "shared" else None
        l1res = {}
        st2 = o2 = None
        for o in order:
            e = shared if shared is not None else est()
            Bg = as_given(hrng, Bt, R, "B", kinds=("same", "int", "fortran", "strided"))
            if o == "dist":
                st2, o2 = call(e.gamut_dist_scaling, Bg, neutral_point=(None if neutral is None else neutral.copy()), relative=relative)
            else:
                i = int(o[3:])
                l1res[i] = call(e.gamut_l1_scaling, Bg, relative=flags[i])
                Aq, bq = sysd[flags[i]]
                R.driver.ask("l%s_%d" % (k, i), "l1scale", ms(Aq), vs(bq), vs(ub), ms(Bt))
        st3, o3 = call(est().in_hull, Bt[Bt.sum(1) > 0].copy(), relative=relative, normalized=True)
        jobs.append((c, Ap, bp, sysd, flags, l1res, st2, o2, st3, o3, neutral))
        # LARGE target sets (whole images: more than 4096 and up to 3*4096 rows -- the property does not bound the number of targets), for one
        # system in ten IN ADDITION to its small set (own random stream, own case key <k>_L): every row is a non-negative mixture
        # w*b_i + (1-w)*b_j of two rows of the small set, times a random brightness (w = 0 or 1 for a fifth of the rows: the small set's own
        # rows, all-zero rows included, recur), so the saturations are spread continuously between inside and outside the gamut. Row order:
        # random, or sorted by the distance of the chromaticity from that of the in-gamut captures (an image with a smooth saturation
        # gradient: calm region first, the most saturated pixels last). Only the chromatic scaling is called on a large set (fresh estimator).
        grng = R.rng(17, si)
        large = "no"
        if si % 10 == 3:
            N = int(grng.integers(4097, 3 * 4096 + 1))
            i1 = grng.integers(len(Bt), size=N); i2 = grng.integers(len(Bt), size=N)
            w = dyadic(grng, 0, 1, 10, size=N); pure = grng.integers(5, size=N) == 0
            w[pure] = np.round(w[pure])
            Bl = (w[:, None] * Bt[i1] + (1 - w[:, None]) * Bt[i2]) * (2.0 ** grng.integers(-2, 3, size=N))[:, None]
            large = str(grng.choice(["random order", "saturation gradient"]))
            if large == "saturation gradient":
                ref = Bin.mean(0) / Bin.mean(0).sum()
                tot = Bl.sum(1)
                dist = np.where(tot > 0, np.max(np.abs(Bl / np.where(tot > 0, tot, 1.0)[:, None] - ref), axis=1), 0.0)
                Bl = Bl[np.argsort(dist, kind="stable")]
            cL = dict(c, k=k + "_L", B=Bl, mode=mode + "+large", history="fresh", calls=["dist"], large=large)
            Blg = as_given(grng, Bl, R, "B-large", kinds=("same", "int", "fortran", "strided"))
            stL, oL = call(est().gamut_dist_scaling, Blg, neutral_point=(None if neutral is None else neutral.copy()), relative=relative)
            st3L, o3L = call(est().in_hull, Bl[Bl.sum(1) > 0].copy(), relative=relative, normalized=True)
            R.count("rows:%d" % len(Bl))
            jobs.append((cL, Ap, bp, sysd, [], {}, stL, oL, st3L, o3L, neutral))
        R.count("large_target_set(>4096 rows):%s" % large)
    R.driver.run()
    for c, Ap, bp, sysd, flags, l1res, st2, o2, st3, o3, neutral in jobs:
        k = c["k"]; nf = c["nf"]; Bt = c["B"]
        sig = "C12:nf=%d:%s" % (nf, "rel" if c["relative"] else "abs")
        outside_any = (st3 == "ok") and (not np.all(o3))
        R.case(c, (k,) if ((nf >= 3 and outside_any) or nf == 2) else None, sample=(outside_any and nf >= 3 and len(Bt) <= 64))
        # ---- intensity scaling: every call of the history against the model of ITS flag
        for i, r in enumerate(flags):
            st1, o1 = l1res[i]
            sig1 = "C12:nf=%d:%s" % (nf, "rel" if r else "abs")
            bq = sysd[r][1]
            c1 = dict(c, l1_call=i, l1_relative=r)
            if st1 != "ok":
                R.failB(dict(c1, impl_error=o1), "gamut_l1_scaling raised %s: %s" % (st1, o1), sig1 + ":l1:raises:" + st1)
                continue
            t = R.driver.get("l%s_%d" % (k, i)); M = t.mat(); amax = t.rat()
            o1 = np.asarray(o1); sc = float(np.max(np.abs(o1))) + 1.0
            if o1.shape != Bt.shape or any(not close(o1[a, j], M[a][j], sc, 1e-11) for a in range(len(M)) for j in range(nf)):
                R.failB(dict(c1, impl=o1, model=[[float(v) for v in r_] for r_ in M]), "intensity scaling differs from (B-base)*amax/bmax+base", sig1 + ":l1:mismatch")
            else:
                li = o1 - bq
                if abs(float(np.max(li)) - float(amax)) > 1e-9 * sc:
                    R.failB(dict(c1, impl=o1), "largest light-induced capture after scaling is %r, the smallest single-source maximum is %r" % (float(np.max(li)), float(amax)), sig1 + ":l1:max-not-amax")
                orig = Bt - bq
                f = li[np.abs(orig) > 1e-12] / orig[np.abs(orig) > 1e-12]
                if len(f) and (np.max(f) - np.min(f) > 1e-9 * abs(np.max(f)) or np.min(f) <= 0):
                    R.failB(dict(c1, impl=o1), "light-induced parts are not scaled by one common positive factor", sig1 + ":l1:no-common-factor")
        # ---- chromatic scaling
        if st2 != "ok":
            R.failB(dict(c, impl_error=o2), "gamut_dist_scaling raised %s: %s" % (st2, o2), sig + ":dist:raises:" + st2)
            continue
        o2 = np.asarray(o2, dtype=float)
        if o2.shape != Bt.shape:
            R.failB(dict(c, impl=o2), "chromatic scaling changed the shape", sig + ":dist:shape"); continue
        nz = Bt.sum(1) > 0
        sc = float(np.max(np.abs(Bt))) + 1.0
        if np.any(np.abs(o2[~nz]) > 0):
            R.failB(dict(c, impl=o2), "an all-zero target row did not stay zero", sig + ":dist:zero-row")
        if st3 == "ok" and np.all(o3) and not np.any(~nz):
            if np.max(np.abs(o2 - Bt)) > 1e-12 * sc:
                R.failB(dict(c, impl=o2), "targets already inside the chromatic gamut were changed", sig + ":dist:not-identity")
            continue
        if st3 == "ok" and np.all(o3) and np.max(np.abs(o2 - Bt)) > 1e-9 * sc:
            # every target that has a chromaticity is already inside the chromatic gamut (the others are all-zero rows):
            # "returns the targets unchanged when they already do"
            R.failB(dict(c, impl=o2, max_change=float(np.max(np.abs(o2 - Bt)))),
                    "every chromaticity of the target set is already inside the chromatic gamut (the set also holds all-zero rows), "
                    "but the targets were changed (max |change| %.3g)" % float(np.max(np.abs(o2 - Bt))), sig + ":dist:not-identity-with-zero-row")
        if np.max(np.abs(o2[nz].sum(1) - Bt[nz].sum(1))) > 1e-9 * sc:
            R.failB(dict(c, impl=o2), "total capture of a target changed", sig + ":dist:total-changed")
        nvec = np.ones(nf) if neutral is None else np.asarray(neutral, dtype=float)
        chat = nvec / nvec.sum()
        bh = Bt[nz] / Bt[nz].sum(1, keepdims=True); oh = o2[nz] / o2[nz].sum(1, keepdims=True)
        alphas = []
        bad_dir = False
        for i in range(len(bh)):
            dv = bh[i] - chat; ov = oh[i] - chat
            if np.max(np.abs(dv)) < 1e-9:
                continue
            j = int(np.argmax(np.abs(dv)))
            a = ov[j] / dv[j]
            alphas.append(a)
            if np.max(np.abs(ov - a * dv)) > 1e-9:
                bad_dir = True
        if bad_dir:
            R.failB(dict(c, impl=o2), "a scaled chromaticity is not on the ray from the neutral point through the target's chromaticity (hue changed)", sig + ":dist:hue-changed")
        elif alphas and (max(alphas) - min(alphas) > 1e-8 or min(alphas) <= 0):
            R.failB(dict(c, impl=o2, alphas=alphas), "saturations were not contracted by one common positive factor: %s" % alphas[:6], sig + ":dist:no-common-alpha")
        # chromaticities in the chromatic gamut, the most saturated on its boundary
        P = []
        from itertools import product as iprod
        for corner in iprod([0, 1], repeat=c["ns"]):
            p = Ap @ (c["lb"] + np.array(corner) * (c["ub"] - c["lb"])) + bp
            if np.sum(np.abs(p)) > 0:
                P.append(p / p.sum())
        P = np.array(P)
        rows = range(len(oh))
        if len(oh) > 64:
            # large set: a random sample of 40 rows and the 8 rows nearest to / beyond the gamut boundary are judged (one LP each)
            rows = sorted(set(int(i) for i in R.rng(19, int(k[1:].split("_")[0])).permutation(len(oh))[:40]) | set(nearest_boundary(P, oh, 8)))
        for i in rows:
            if not in_conv_lp(P, oh[i], 1e-6):   # qhull's facet planes are accurate to ~1e-7; the gamut margin is 1e-6
                R.failB(dict(c, impl=o2, row=i), "a scaled chromaticity lies outside the system's chromatic gamut", sig + ":dist:outside-gamut")
                break
        else:
            if alphas and min(alphas) < 1 - 1e-9:
                # pushing every chromaticity 1e-4 further out must leave the gamut for at least one sample
                a = min(alphas)
                cand = range(len(bh)) if len(bh) <= 64 else nearest_boundary(P, chat + (a * (1 + 1e-3)) * (bh - chat), 32)   # large set: the 32 pushed chromaticities nearest to / beyond the boundary
                esc = any(not in_conv_lp(P, chat + (a * (1 + 1e-3)) * (bh[i] - chat), 1e-9) for i in cand)
                if not esc:
                    R.failB(dict(c, impl=o2, alpha=a), "the common contraction %.6g is not maximal: all chromaticities stay inside when it is increased by 1e-3" % a, sig + ":dist:not-on-boundary")
