"""C13 — samples drawn in the gamut are in the gamut, reproducible and uniform."""
import math
import numpy as np
from common import F, rs, vs, ms, dyadic, close, call, as_given
from systems import gen_A, gen_K, gen_baseline, apply_K


def cloud(rng, d, kind, whole=False, skew_bits=6):
    """point cloud of the given kind; whole=True: every coordinate is a whole number (a cloud a caller may write down with an
    integer dtype); skew_bits: the skewed kind stretches the first axis by 2^skew_bits and (non-whole) shrinks the last by the same"""
    if kind == "random":
        if whole:
            return dyadic(rng, 0, 12, 0, size=(int(rng.integers(d + 2, d + 10)), d))
        return dyadic(rng, 0, 4, 4, size=(int(rng.integers(d + 2, d + 10)), d))
    if kind == "interior":      # many interior points around a few extreme ones
        V = dyadic(rng, 0, 8, 3, size=(d + 2, d)) * (4.0 if whole else 1.0)
        W = rng.dirichlet(np.ones(d + 2), size=12)
        if whole:
            return np.vstack([np.round(V), np.round(W @ V)])
        return np.vstack([V, W @ V])
    if kind == "skewed":        # strongly anisotropic
        if whole:
            P = dyadic(rng, 0, 10, 0, size=(d + 6, d)); P[:, 0] *= 2.0 ** skew_bits
            return P
        P = dyadic(rng, 0, 4, 4, size=(d + 6, d)); P[:, 0] *= 2.0 ** skew_bits; P[:, -1] *= 2.0 ** -skew_bits
        return P
    if kind == "near_collinear":
        if whole:
            t = dyadic(rng, 0, 256, 0, size=(d + 6, 1)); return t * np.ones((1, d)) + dyadic(rng, -1, 1, 0, size=(d + 6, d))
        t = dyadic(rng, 0, 4, 4, size=(d + 6, 1)); P = t * np.ones((1, d)) + dyadic(rng, -1, 1, 6, size=(d + 6, d)) * 2.0 ** -6
        return P
    raise ValueError(kind)


def full_dim(P):
    Q = np.asarray(P, dtype=float)
    return np.linalg.matrix_rank(Q[1:] - Q[0]) == Q.shape[1]


def exact_moments(P):
    """centroid and volume of conv(P) from an independent triangulation (fan from the centroid of vertices over hull facets)"""
    from scipy.spatial import ConvexHull
    hull = ConvexHull(P)
    d = P.shape[1]; c0 = P[hull.vertices].mean(0)
    vol = 0.0; cen = np.zeros(d)
    for simp in hull.simplices:
        V = P[simp]
        v = abs(np.linalg.det(V - c0)) / math.factorial(d)
        vol += v; cen += v * (V.sum(0) + c0) / (d + 1)
    return hull, vol, cen / vol


def run(R):
    import dreye
    from dreye import _verif
    from scipy.spatial import ConvexHull
    qmc_events = []   # (case key, case, signature, hook events, requested n): row blocks / simplex indices of the QMC branch vs the Lean model
    n = 36 if R.tier == "quick" else 400
    R.rule = ("point clouds in 2-4 dimensions (random, with many interior points, strongly skewed -- axis ratio 2^12 or 2^20 --, nearly collinear; half of them "
              "with whole-number coordinates) handed in as float64 / integer dtype (whole-number clouds) / Fortran-ordered / "
              "strided arrays, and estimator systems (2-4 receptors, more sources than receptors) with and without l1; "
              "n in {1,2,7,100,10^4,10^5}; engines None/Halton/Sobol/LHC given by name or (function) as a scipy QMCEngine instance; "
              "seeds given as int or numpy Generator. Predicates on dreye's samples: exact count, inside every facet of an "
              "independently computed hull (1e-9), identical arrays for identical seeds, the samples of a cloud do not depend on "
              "the representation (dtype / memory layout) its values were handed in (same seed, 1e-12), every l1 sample sums to "
              "l1, and for the default engine with n >= 10^4: sample mean vs exact centroid and half-space fractions vs exact "
              "volume fractions at 6 sigma. Non-trivial: cloud with interior points or >= d+3 vertices and n >= 100.")
    for k in range(n):
        if not R.want(k):
            continue
        rng = R.rng(1, k)
        d = int(rng.integers(2, 5))
        ckind = str(rng.choice(["random", "interior", "skewed", "near_collinear"]))
        engine = [None, None, "Halton", "Sobol", "LHC"][int(rng.integers(5))]
        ns = int(rng.choice([1, 2, 7, 100, 10000])) if engine is None else int(rng.choice([1, 2, 8, 128]))
        seed = int(rng.integers(0, 10000))
        via = "estimator" if rng.integers(3) == 0 else "function"
        l1 = None
        c = dict(k=k, dim=d, cloud_kind=ckind, engine=engine, n=ns, seed=seed, via=via)
        vrng = R.rng(8, k)     # representation / option variants (own stream: the values above stay what they were)
        seed_kind = str(vrng.choice(["int", "int", "generator"]))
        mkseed = (lambda: seed) if seed_kind == "int" else (lambda: np.random.default_rng(seed))  # noqa: E731
        engine_as = "name"
        Pref = None
        if via == "estimator":
            nf = d; nsrc = int(rng.integers(nf + 1, nf + 4))
            A = gen_A(rng, nf, nsrc, lo=0.0, hi=1.0, bits=3)
            ub = dyadic(rng, 0.5, 2, 2, size=nsrc)
            filt = np.hstack([np.zeros((nf, 1)), A, np.zeros((nf, 1))]); src = np.hstack([np.zeros((nsrc, 1)), np.eye(nsrc), np.zeros((nsrc, 1))])
            use_l1 = bool(rng.integers(2))
            from itertools import product
            P = np.array([A @ (np.array(cr) * ub) for cr in product([0, 1], repeat=nsrc)])
            if use_l1:
                l1 = float(dyadic(rng, 0.5, 4, 2))
            c.update(A=A, ub=ub, l1=l1)
            est = lambda: dreye.ReceptorEstimator(filt, domain=1.0, sources=src, ub=ub)  # noqa: E731
            fn = lambda: est().sample_in_gamut(n=ns, seed=mkseed(), engine=engine, l1=l1)  # noqa: E731
        else:
            whole = bool(vrng.integers(2))
            # strength of the skew (axis ratio 2^12 or 2^20 for fractional clouds, 2^6 or 2^10 for whole-number ones) and, for the
            # uniformity clause, the upper end of the sample sizes (own stream: the other choices stay what they were)
            xrng = R.rng(9, k)
            skew_bits = int(xrng.choice([6, 10]))
            if ns == 10000 and xrng.integers(3) == 0:
                ns = 100000; c.update(n=ns)
            P = cloud(rng, d, ckind, whole, skew_bits)
            if whole and not full_dim(P):
                whole = False; P = cloud(rng, d, ckind, False, skew_bits)
            if ckind == "skewed":
                c.update(skew_bits=skew_bits); R.count("skew:2^%d" % (skew_bits * (1 if whole else 2)))
            c.update(P=P, whole=whole)
            # the same values in the representation the caller hands in (the reference below is the float64 C-ordered copy)
            Pg = as_given(vrng, P, R, "P", kinds=(("int",) if whole else ("fortran", "strided")))
            given = "same" if Pg is P else ("int" if Pg.dtype.kind == "i" else "layout")
            if engine is not None and vrng.integers(3) == 0:
                engine_as = "instance"
            from scipy.stats import qmc
            mkeng = (lambda: engine) if engine_as == "name" else (lambda: {"Halton": qmc.Halton, "Sobol": qmc.Sobol, "LHC": qmc.LatinHypercube}[engine](d + 1, seed=seed + 1))  # noqa: E731
            fn = lambda: dreye.sample_in_hull(Pg, ns, seed=mkseed(), engine=mkeng())  # noqa: E731
            if given != "same":
                Pref = lambda: dreye.sample_in_hull(P.copy(), ns, seed=mkseed(), engine=mkeng())  # noqa: E731
            R.count("whole_coordinates:%s" % whole)
        c.update(seed_kind=seed_kind, engine_as=engine_as)
        R.count("seed_kind:%s" % seed_kind); R.count("engine_as:%s" % engine_as)
        for key in ("cloud_kind", "via"):
            R.count("%s:%s" % (key, c[key]))
        R.count("engine:%s" % engine); R.count("n:%d" % ns); R.count("dim:%d" % d); R.count("l1:%s" % (l1 is not None))
        _verif.drain()
        if via == "function":
            # the cloud is passed as an argument of call(): the frame condition (argument unchanged) is checked
            st, out = call(lambda Pg_: (fn(), fn()), Pg)
        else:
            st, out = call(lambda: (fn(), fn()))
        if engine is not None:
            qmc_events.append((k, dict(c), "C13:%s:qmc" % via, [e for e in _verif.drain() if e["event"] in ("qmc_block", "qmc_plan")], ns))
        stref, Sref = call(Pref) if Pref is not None else (None, None)
        nontriv = (k,) if (ns >= 100 and (ckind == "interior" or via == "estimator" or len(P) >= d + 3)) else None
        R.case(c, nontriv, sample=(nontriv is not None and ns <= 128))
        sig = "C13:%s:%s" % (via, "default" if engine is None else "qmc")
        if st != "ok":
            R.failB(dict(c, impl_error=out), "sampling raised %s: %s" % (st, out), sig + ":raises:" + st); continue
        S1, S2 = np.asarray(out[0]), np.asarray(out[1])
        if S1.shape != (ns, d):
            R.failB(dict(c, impl_shape=S1.shape), "returned %s samples/shape, requested %d x %d" % (S1.shape, ns, d), sig + ":count"); continue
        if not np.array_equal(S1, S2):
            R.failB(dict(c, first=S1[:3], second=S2[:3]), "two calls with the same seed returned different samples", sig + ":seed")
        if stref is not None:
            # identical seed, identical cloud VALUES: the samples must not depend on the dtype / memory layout the cloud came in
            scr = float(np.max(np.abs(P))) + 1.0
            if stref != "ok":
                R.failB(dict(c, impl_error=Sref), "sampling the float64 copy of the cloud raised %s: %s" % (stref, Sref), sig + ":raises:" + stref)
            elif np.asarray(Sref).shape != S1.shape or np.max(np.abs(np.asarray(S1, dtype=float) - np.asarray(Sref, dtype=float))) > 1e-12 * scr:
                R.failB(dict(c, given_dtype=str(np.asarray(Pg).dtype), samples_as_given=S1[:3], samples_float64=np.asarray(Sref)[:3]),
                        "same seed, same cloud values: the samples for the cloud as given (dtype %s) differ from the samples for its "
                        "float64 copy" % np.asarray(Pg).dtype, sig + ":representation")
        if l1 is not None:
            if np.max(np.abs(S1.sum(1) - l1)) > 1e-9 * l1:
                R.failB(dict(c, sums=S1.sum(1)[:5]), "samples do not sum to the requested l1", sig + ":l1-sum")
            # membership: the chromaticity must lie in the chromatic gamut, i.e. sample/l1 in conv of the normalised corner images
            Pn = P[P.sum(1) > 0]; Q = Pn / Pn.sum(1, keepdims=True)
            try:
                hullc = ConvexHull(Q[:, :-1])
                val = (S1 / l1)[:, :-1] @ hullc.equations[:, :-1].T + hullc.equations[:, -1]
                if np.max(val) > 1e-9:
                    R.failB(dict(c, sample=S1[np.argmax(val.max(1))]), "an l1 sample has a chromaticity outside the chromatic gamut", sig + ":l1-outside")
            except Exception:  # noqa: BLE001
                pass
            continue
        hull, vol, cen = exact_moments(P)
        sc = float(np.max(np.abs(P))) + 1.0
        val = S1 @ hull.equations[:, :-1].T + hull.equations[:, -1]
        if np.max(val) > 1e-9 * sc:
            R.failB(dict(c, sample=S1[int(np.argmax(val.max(1)))], facet_value=float(np.max(val))), "a sample lies outside the hull (facet value %.3g)" % float(np.max(val)), sig + ":outside")
            continue
        if engine is None and ns >= 10000:
            # uniformity: mean vs centroid, and half-space fractions vs exact volume fractions (6 sigma)
            sd = S1.std(0) + 1e-300
            z = np.abs(S1.mean(0) - cen) / (sd / math.sqrt(ns))
            if np.max(z) > 6:
                R.failB(dict(c, sample_mean=S1.mean(0), centroid=cen, z=z), "sample mean %s deviates from the hull's centroid %s by %.1f sigma: not uniform" % (S1.mean(0).tolist(), cen.tolist(), float(np.max(z))), sig + ":uniform-mean")
            for t in range(3):
                nvec = R.rng(5, k, t).standard_normal(d); off = float(nvec @ cen)
                # exact fraction of the hull's volume on the side n.x <= off: clip every fan simplex by Monte-Carlo-free recursion is heavy; use a fine
                # deterministic quadrature instead: independent uniform reference by rejection from the bounding box with 2e5 points
                ref = R.rng(6, k, t).uniform(P.min(0), P.max(0), size=(200000, d))
                inside = np.all(ref @ hull.equations[:, :-1].T + hull.equations[:, -1] <= 0, axis=1)
                ref = ref[inside]
                if len(ref) < 2000:
                    continue
                p_ref = float(np.mean(ref @ nvec <= off)); p_s = float(np.mean(S1 @ nvec <= off))
                sig_ = math.sqrt(p_ref * (1 - p_ref) * (1 / ns + 1 / len(ref))) + 1e-12
                if abs(p_s - p_ref) > 6 * sig_:
                    R.failB(dict(c, fraction_samples=p_s, fraction_volume=p_ref), "a half-space holding %.4f of the hull's volume received %.4f of the samples (%.1f sigma)" % (p_ref, p_s, abs(p_s - p_ref) / sig_), sig + ":uniform-halfspace")
                    break

    # ---- quasi-Monte-Carlo branch: the bookkeeping recorded by the hook against the model (Props/C13Blocks.lean) ----------------
    asked = []
    for k, c, sig, events, ns in qmc_events:
        plans = []; blocks = []
        for e in events:
            if e["event"] == "qmc_block":
                blocks.append((e["start"], e["stop"]))
            else:
                plans.append((e, blocks)); blocks = []
        R.count("qmc-plans-recorded:%d" % len(plans))
        for j, (e, bl) in enumerate(plans):
            rid = "q%s_%d" % (k, j)
            R.driver.ask(rid, "qmcplan", len(e["counts"]), *e["counts"])
            asked.append((rid, c, sig, e, bl, ns))
    R.driver.run()
    for rid, c, sig, e, bl, ns in asked:
        t = R.driver.get(rid)
        nb = t.nat(); mblocks = [(t.nat(), t.nat()) for _ in range(nb)]
        assert t.tok() == "|"
        ni = t.nat(); midx = [t.nat() for _ in range(ni)]
        ok = True
        if sum(e["counts"]) != ns:
            R.failB(dict(c, counts=e["counts"]), "the per-simplex counts of the QMC branch sum to %d, %d samples were requested" % (sum(e["counts"]), ns), sig + ":qmc-counts"); ok = False
        if [tuple(b) for b in bl] != mblocks:
            R.failB(dict(c, counts=e["counts"], blocks_written=bl, blocks_model=mblocks),
                    "the row blocks written by the QMC loop %s are not the model's %s: rows are overwritten or left empty" % (bl[:6], mblocks[:6]), sig + ":qmc-blocks"); ok = False
        if list(e["sample_indices"]) != midx:
            R.failB(dict(c, counts=e["counts"]), "the simplex index of the rows is not np.repeat(arange, counts)", sig + ":qmc-index"); ok = False
        R.cert(ok)
