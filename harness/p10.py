"""C10 — adaptive fit scales intensity and chroma uniformly and stays inside the gamut."""
import numpy as np
from fractions import Fraction
from common import F, rs, vs, ms, dyadic, close, call, parse_rat, as_given
from systems import gen_A, gen_K, gen_baseline, apply_K
from fitlib import ub_text


def build_rows(Ap, bp, nu, B, d1, dr):
    """float mirror of Dreye.adaptiveRows (same row order) - only used to obtain untrusted multipliers"""
    size, nf = B.shape; n = Ap.shape[1]
    N = size * n + 2
    G, h = [], []
    cs = Ap.sum(0); sb = bp.sum()
    for i in range(size):
        bs = B[i].sum()
        r = np.zeros(N); r[i * n:(i + 1) * n] = cs; r[-2] = -bs; G.append(r); h.append(d1 - sb)
        r = np.zeros(N); r[i * n:(i + 1) * n] = -cs; r[-2] = bs; G.append(r); h.append(d1 + sb)
    for i in range(size):
        bs = B[i].sum(); npt = nu / nu.sum() * bs; br = B[i] - npt
        for c in range(nf):
            r = np.zeros(N); r[i * n:(i + 1) * n] = -Ap[c]; r[-2] = npt[c]; r[-1] = br[c]; G.append(r); h.append(dr + bp[c])
            r = np.zeros(N); r[i * n:(i + 1) * n] = Ap[c]; r[-2] = -npt[c]; r[-1] = -br[c]; G.append(r); h.append(dr - bp[c])
    return np.array(G), np.array(h)


def lp_duals(cost, G, h, lb, ub):
    """multipliers of  min cost.z  s.t. G z <= h, lb <= z <= ub  (HiGHS)"""
    from scipy.optimize import linprog
    bounds = [(float(l), None if not np.isfinite(u) else float(u)) for l, u in zip(lb, ub)]
    res = linprog(cost, A_ub=G, b_ub=h, bounds=bounds, method="highs")
    if res.status != 0:
        return None
    return np.maximum(-np.asarray(res.ineqlin.marginals), 0.0)


SMAX = 1.0e4   # fallback only: if the multipliers cannot be repaired the certificate ranges over pairs with both scales <= SMAX


def repair_for_unbounded_scales(cost, G, lam):
    """The two scales have no upper bound, so the reduced costs (cost + G^T lam) of the last two coordinates must be >= 0 EXACTLY
    for the verified bound to be finite; floating-point multipliers miss that by rounding. Raise the multiplier of one row with a
    positive coefficient until the reduced cost is a small positive margin (lower bound of the scales is 0, so a positive reduced
    cost costs nothing; the extra lam_i * h_i is ~1e-9). First the chroma scale (radial rows also touch the intensity scale), then the
    intensity scale (total rows touch nothing else). Untrusted hint: the Lean checker decides."""
    lam = np.array(lam, dtype=float)
    N = G.shape[1]
    for j in (N - 1, N - 2):
        rj = cost[j] + lam @ G[:, j]
        margin = 1e-9 * (1.0 + abs(cost[j]) + float(np.abs(lam) @ np.abs(G[:, j])))
        if rj < margin:
            other = N - 2 if j == N - 1 else N - 1
            cand = [i for i in range(G.shape[0]) if G[i, j] > 0 and (j == N - 1 or G[i, other] == 0)]
            if not cand:
                return None
            i = max(cand, key=lambda t: G[t, j])
            lam[i] += (margin - rj) / G[i, j]
    return lam


def run(R):
    import dreye
    from dreye.api.optimize.lsq_linear import lsq_linear_adaptive
    nsys = 24 if R.tier == "quick" else 200
    R.rule = ("systems 2-4 receptors x 2-6 sources with finite bounds (lb zero / mixed / positive), K none/scalar/vector, baseline; "
              "target sets of 1-%d samples from well inside to far outside the gamut, including targets of mixed sign (a negative component, positive "
              "total = plain sum of the entries: an in-gamut capture moved away from the neutral direction at constant total until a component "
              "is negative, or its smallest component replaced by a negative value) and sets that are only marginally outside (an extreme "
              "point of the gamut - all sources at ub or at lb - moved outwards, in total or in offset, by a relative 2^-19..2^-16, so the "
              "optimal scales differ from 1 by a few ppm; deltas 1e-6/1e-5 there); LARGE sets (own stream, %d per run: 30-50 samples, upper bounds 8-16 so that the squared intensities of a fit sum to thousands; "
              "the first one all in gamut with the 'unity' objective and more sources than receptors); default and explicit (non-unit-sum) neutral "
              "points; objectives 'unity' and 'max'; scale weights; deltas 1e-6..1e-3; solver passed through the keyword "
              "(CLARABEL; the default ECOS is not installed); capture matrix and targets handed in as C/Fortran/strided arrays or nested lists. On dreye's (X, scales): bounds, positivity of the scales, every "
              "sample condition of the property evaluated exactly in Q (theorem adaptive_rows_iff), and a certificate from LP "
              "multipliers through the verified linLower that no feasible pair is closer to (1,1) / has a larger weighted sum "
              "(theorems unity/max_opt_of_cert). Non-trivial: at least one target outside the gamut." % (6 if R.tier == "quick" else 50, 2 if R.tier == "quick" else 8))
    jobs = []
    # LARGE instances (own stream): 30-50 samples with intensity units well above 1 (upper bounds 8-16), so that the sum of the
    # squared intensities of a fit is in the thousands; the first one is an all-in-gamut set with the 'unity' objective and more
    # sources than receptors (intensities not unique), the others draw everything at random like the small systems
    nlarge = 2 if R.tier == "quick" else 8
    plan = [(si, None) for si in range(nsys)] + [(nsys + 1000 + j, j) for j in range(nlarge)]
    for si, large in plan:
        k = "s%d" % si
        if not R.want(k):
            continue
        rng = R.rng(1, si) if large is None else R.rng(6, si)
        nf = int(rng.integers(2, 5)); ns = int(rng.integers(2, 7))
        if large is not None and (large == 0 or rng.integers(2)):
            ns = int(rng.integers(nf + 1, 7))
        A = gen_A(rng, nf, ns, lo=0.25, hi=3.0, bits=2)
        kk, K = gen_K(rng, nf, kinds=("none", "scalar", "vector"))
        bk, base = gen_baseline(rng, nf)
        lbk = str(rng.choice(["zero", "mixed", "pos"]))
        lb = np.zeros(ns)
        if lbk == "pos":
            lb = dyadic(rng, 0.0625, 0.25, 4, size=ns)
        elif lbk == "mixed":
            lb = np.where(rng.random(ns) < 0.5, 0.0, 0.25); lb[0] = 0.0; lb[-1] = 0.25
        ub = lb + (dyadic(rng, 1, 3, 2, size=ns) if large is None else dyadic(rng, 8, 16, 1, size=ns))
        Ap, bp = apply_K(A, K, base)
        size = int(rng.integers(1, 7 if R.tier == "quick" else (51 if si % 10 == 0 else 9))) if large is None else int(rng.integers(30, 51))
        easy = (lbk == "zero" and bk == "zero")
        nuk = str(rng.choice(["default", "explicit"]))
        nu = np.ones(nf) if nuk == "default" else dyadic(rng, 0.5, 3, 1, size=nf)
        # a marginally-outside set needs room to rescale the in-gamut members by a few ppm: full row rank, or no baseline
        marg_ok = (ns >= nf) or bool(np.all(bp == 0))
        mode = (str(rng.choice(["inside", "mixed", "outside", "signed"] + ["marginal"] * marg_ok)) if easy
                else str(rng.choice(["inside", "mixed", "signed"] + ["marginal"] * marg_ok)))
        if large == 0:
            mode = "inside"
        if large is not None:
            R.count("large:sources-vs-receptors:%s" % ("more" if ns > nf else "equal" if ns == nf else "fewer")); R.count("large:targets:%s" % mode)
        X0 = lb + dyadic(rng, 0.125, 0.875, 3, size=(size, ns)) * (ub - lb)
        B = X0 @ Ap.T + bp
        marg = None
        if mode == "marginal":
            # boundary of the gamut, crossed by a few parts per million: well-inside targets plus one extreme point of the gamut (all sources
            # at ub = largest total capture, or all at lb = smallest) moved outwards by a relative eta = 2^-19..2^-16, so that the set has
            # to be scaled by a factor that differs from 1 only by ~eta; the requested deltas are the tight ones (1e-6, 1e-5)
            mk = str(rng.choice(["bright", "bright"] + (["radial"] if ns >= nf else []) + (["dark"] if float(np.sum(Ap @ lb + bp)) > 0.5 else [])))
            eta = 2.0 ** -int(rng.integers(16, 20))
            i = int(rng.integers(size))
            xc = lb.copy() if mk == "dark" else ub.copy()
            Bc = Ap @ xc + bp
            if mk == "bright":
                B[i] = Bc * (1 + eta)
            elif mk == "dark":
                B[i] = Bc * (1 - eta)
            else:
                npt = nu / nu.sum() * Bc.sum()      # offset from the neutral direction stretched, total unchanged
                B[i] = npt + (Bc - npt) * (1 + eta)
            marg = dict(kind=mk, eta=eta, sample=i)
            R.count("marginal:%s" % mk); R.count("marginal:eta=2^%d" % int(np.log2(eta)))
        if mode in ("mixed", "outside"):
            for i in range(size):
                if mode == "outside" or rng.integers(2):
                    B[i] = B[i] * dyadic(rng, 0.25, 4, 1, size=nf) * float(rng.choice([1.0, 3.0]))
                    # make a source needed below its lower bound sometimes
                    if rng.integers(3) == 0 and easy:
                        B[i] = bp + (B[i] - bp) * 0.05
        signed = None
        if mode == "signed":
            # targets of mixed sign (e.g. derived from contrasts): a negative component, total (= plain sum of the entries) still positive.
            #  radial:    an in-gamut capture moved away from the neutral direction, total unchanged, by a factor g > 1 until one
            #             component is negative; the pair (1, 1/g) is feasible by construction
            #  component: the smallest component of an in-gamut capture replaced by a negative value (feasibility not guaranteed:
            #             the neutral direction need not meet the gamut; an empty constraint set is recognised below)
            signed = []
            must = int(rng.integers(size))
            for i in range(size):
                if i != must and rng.integers(2):
                    continue
                sk = str(rng.choice(["radial", "radial", "component"]))
                b0 = B[i].copy()
                if sk == "radial":
                    npt = nu / nu.sum() * b0.sum(); r0 = b0 - npt
                    cneg = int(np.argmin(r0 / npt))
                    g0 = npt[cneg] / -r0[cneg] if r0[cneg] < 0 else np.inf
                    if not (g0 < 24):
                        sk = "component"    # (almost) on the neutral direction: no moderate factor makes a component negative
                    else:
                        g = float(g0) * (1 + float(dyadic(rng, 0.125, 1, 3)))
                        B[i] = npt + g * r0
                if sk == "component":
                    cneg = int(np.argmin(b0))
                    B[i, cneg] = -float(dyadic(rng, 0.125, 0.5, 3)) * b0[cneg]
                if not (np.min(B[i]) < 0 < np.sum(B[i])):
                    B[i] = b0; continue     # (degenerate: zero capture component) leave the in-gamut target
                signed.append(dict(sample=i, kind=sk, negative_component=cneg))
                R.count("signed:%s" % sk)
            R.count("signed:samples_with_negative_component=%d" % len(signed))
        obj = str(rng.choice(["unity", "max"]))
        if large == 0:
            obj = "unity"
        if large is not None:
            R.count("large:objective:%s" % obj)
        sw = np.array([1.0, 1.0]) if rng.integers(2) else dyadic(rng, 0.5, 2, 1, size=2)
        dch = [1e-6, 1e-5] if mode == "marginal" else [1e-6, 1e-5, 1e-4, 1e-3]
        d1 = float(rng.choice(dch)); dr = float(rng.choice(dch))
        via = "estimator" if si % 3 == 0 else "function"
        c = dict(k=k, nf=nf, ns=ns, size=size, A=A, K=K, K_kind=kk, baseline=base, baseline_kind=bk, lb=lb, ub=ub, lb_kind=lbk, B=B, targets=mode,
                 neutral_kind=nuk, neutral_point=(None if nuk == "default" else nu), objective=obj, scale_w=sw, delta_norm1=d1, delta_radius=dr, via=via, marginal=marg, signed=signed)
        for key in ("K_kind", "baseline_kind", "lb_kind", "targets", "neutral_kind", "objective", "via"):
            R.count("%s:%s" % (key, c[key]))
        R.count("size:%s" % (size if size <= 9 else ">=10"))
        kw = dict(neutral_point=(None if nuk == "default" else nu.copy()), delta_norm1=d1, delta_radius=dr, adaptive_objective=obj, scale_w=sw, solver="CLARABEL")
        if via == "estimator":
            filt = np.hstack([np.zeros((nf, 1)), A, np.zeros((nf, 1))]); src = np.hstack([np.zeros((ns, 1)), np.eye(ns), np.zeros((ns, 1))])
            st, out = call(lambda: dreye.ReceptorEstimator(filt, domain=1.0, K=(1.0 if K is None else K), baseline=base, sources=src, lb=lb, ub=ub).fit_adaptive(B.copy(), **kw))
        else:
            rg = R.rng(3, si)   # representation of the arguments (values unchanged; the model sees values only)
            st, out = call(lsq_linear_adaptive, as_given(rg, A.copy(), R, "A", kinds=("same", "fortran", "strided")),
                           as_given(rg, B.copy(), R, "B", kinds=("same", "fortran", "strided", "list")), lb=lb, ub=ub, K=K, baseline=base, return_pred=True, **kw)
        job = dict(c=c, st=st, out=out, Ap=Ap, bp=bp, nu=nu)
        jobs.append(job)
        if st != "ok":
            continue
        Xh, sc, Bp = np.asarray(out[0]), np.asarray(out[1]), np.asarray(out[2])
        if mode == "marginal":
            for dev in np.abs(sc - 1):
                R.count("marginal:|scale-1| %s" % ("= 0" if dev == 0 else "< 1e-6" if dev < 1e-6 else "in [1e-6, 1e-5)" if dev < 1e-5 else "in [1e-5, 1e-4)" if dev < 1e-4 else ">= 1e-4"))
        z = np.concatenate([np.clip(Xh, lb, ub).ravel(), np.maximum(sc, 0.0)])
        G, h = build_rows(Ap, bp, nu, B, d1, dr)
        N = len(z)
        lbz = np.concatenate([np.tile(lb, size), [0.0, 0.0]]); ubz = np.concatenate([np.tile(ub, size), [SMAX, SMAX]])
        if obj == "unity":
            M = np.zeros((2, N)); M[0, -2] = sw[0]; M[1, -1] = sw[1]; r = sw.copy()
            cost = 2 * M.T @ (M @ z - r)
        else:
            cost = np.zeros(N); cost[-2:] = -sw
        # certificate over ALL feasible pairs (scales unbounded above); multipliers repaired for exact dual feasibility
        ubz_inf = np.concatenate([np.tile(ub, size), [np.inf, np.inf]])
        lam = lp_duals(cost, G, h, lbz, ubz_inf)
        lam_r = None if lam is None else repair_for_unbounded_scales(cost, G, lam)
        job["z"] = z
        if lam_r is not None:
            R.driver.ask("a" + k, "adaptive", obj, ns, ms(Ap), vs(bp), vs(nu), ms(B), rs(d1), rs(dr), rs(sw[0]), rs(sw[1]), vs(lb), ub_text(ub), "inf", vs(lam_r), vs(z))
            job["asked"] = True; job["smax"] = "inf"
        # fallback (restricted certificate, counted separately): scales <= SMAX
        lam2 = lp_duals(cost, G, h, lbz, ubz)
        if lam2 is not None:
            R.driver.ask("b" + k, "adaptive", obj, ns, ms(Ap), vs(bp), vs(nu), ms(B), rs(d1), rs(dr), rs(sw[0]), rs(sw[1]), vs(lb), ub_text(ub), rs(SMAX), vs(lam2), vs(z))
            job["asked_b"] = True
    R.driver.run()
    n_solver_err = [0]
    for job in jobs:
        c = job["c"]; k = c["k"]
        R.case(c, (k,) if c["targets"] != "inside" else None, sample=(c["size"] <= 3 and c["targets"] != "inside"))
        sig = "C10:%s:%s" % (c["objective"], c["targets"])
        if job["st"] != "ok":
            # is the constraint set of the property empty for this instance?  (then no answer exists and raising is right)
            from scipy.optimize import linprog
            G, h = build_rows(job["Ap"], job["bp"], job["nu"], c["B"], c["delta_norm1"], c["delta_radius"])
            N = G.shape[1]
            lbz = np.concatenate([np.tile(c["lb"], c["size"]), [0.0, 0.0]]); ubz = np.concatenate([np.tile(c["ub"], c["size"]), [np.inf, np.inf]])
            res = linprog(np.r_[np.zeros(N), 1.0], A_ub=np.hstack([G, -np.ones((len(h), 1))]), b_ub=h,
                          bounds=[(float(l), None if not np.isfinite(u) else float(u)) for l, u in zip(lbz, ubz)] + [(None, None)], method="highs")
            if res.status == 0 and res.x[-1] > 1e-9:
                R.count("infeasible-instance:raise-is-correct")
                R.count("infeasible-instance:targets=%s" % c["targets"])
                continue
            if job["st"] == "other:SolverError":
                # cvxpy's own SolverError from the solver the HARNESS names (dreye's default ECOS is not installed here, so every call passes
                # solver="CLARABEL"): a loud numerical failure of that engine (seen on a 43-sample instance with deltas 1e-6, seed 10), not a
                # wrong answer. Counted; a violation only when it becomes systematic.
                n_solver_err[0] += 1
                R.count("harness-chosen-solver-failed(loud):%s" % c["targets"])
                if n_solver_err[0] <= 2:
                    continue
            R.failB(dict(c, impl_error=job["out"], feasible_point=(None if res.status != 0 else res.x[:-1])), "fit_adaptive raised %s although a feasible (X, scales) exists: %s" % (job["st"], job["out"]), sig + ":raises:" + job["st"]); continue
        Xh, sc, Bp = [np.asarray(o) for o in job["out"]]
        lb, ub, Ap, bp, nu, B = c["lb"], c["ub"], job["Ap"], job["bp"], job["nu"], c["B"]
        rngb = ub - lb
        if np.any(Xh < lb - 1e-6 * rngb) or np.any(Xh > ub + 1e-6 * rngb):
            R.failB(dict(c, impl=Xh), "intensities violate the bounds (min X-lb = %.4g, min ub-X = %.4g)" % (float(np.min(Xh - lb)), float(np.min(ub - Xh))), sig + ":bounds:lb=" + c["lb_kind"])
        if np.any(sc < -1e-9):
            R.failB(dict(c, impl=sc), "a scale is negative: %s" % sc.tolist(), sig + ":negative-scale")
        if np.max(np.abs(Bp - (Xh @ Ap.T + bp))) > 1e-9 * (np.max(np.abs(Bp)) + 1):
            R.failB(dict(c, impl=[Xh, Bp]), "returned prediction is not the model's capture of the returned intensities", sig + ":pred-mismatch")
        # the property's per-sample conditions on dreye's own numbers
        Bsum = B.sum(1); npts = nu / nu.sum() * Bsum[:, None]; Brad = B - npts
        tot = np.abs(Bp.sum(1) - sc[0] * Bsum)
        rad = np.abs(sc[1] * Brad - (Bp - sc[0] * npts))
        slack = 1e-6 * (np.max(np.abs(B)) + 1)
        if np.max(tot) > c["delta_norm1"] + slack:
            R.failB(dict(c, impl=[Xh, sc]), "fitted total capture differs from scale0 x target total by %.4g > delta %.0e" % (float(np.max(tot)), c["delta_norm1"]), sig + ":total-condition:neutral=" + c["neutral_kind"])
        if np.max(rad) > c["delta_radius"] + slack:
            R.failB(dict(c, impl=[Xh, sc]), "fitted offset from the neutral direction differs from scale1 x target offset by %.4g > delta %.0e" % (float(np.max(rad)), c["delta_radius"]), sig + ":radial-condition:neutral=" + c["neutral_kind"])
        if not (job.get("asked") or job.get("asked_b")):
            R.cert(False); R.failA(c, "no multipliers available for the optimality certificate"); continue
        scale = float(np.sum(c["scale_w"])) + 1.0
        ok = False; delta = None; objv = 0
        for rid, label in (("a", "all-feasible-pairs"), ("b", "scales<=%g" % SMAX)):
            if not job.get("asked" if rid == "a" else "asked_b"):
                continue
            t = R.driver.get(rid + k)
            objv = t.rat(); tok = t.tok(); inb = t.bool(); viol = t.rat()
            d_ = None if tok == "none" else float(parse_rat(tok))
            if delta is None:
                delta = d_
            if d_ is not None and d_ <= 1e-3 * scale:
                ok = True; delta = d_
                R.count("certificate-range:" + label)
                break
        if c["objective"] == "unity" and float(objv) <= 1e-3 * scale:
            ok = True    # a sum of squares is >= 0 at every feasible point (Cert.lsObj_nonneg): a value this small is optimal up to itself
        R.cert(ok)
        if c["objective"] == "unity" and c["targets"] == "inside" and np.max(np.abs(sc - 1)) > 1e-3:
            R.failB(dict(c, impl=sc), "all targets are in gamut but the scales are %s, not (1, 1)" % sc.tolist(), sig + ":not-unity")
        if not ok:
            # search for a better feasible pair with an independent LP/QP on the exact rows
            import cvxpy as cp
            G, h = build_rows(Ap, bp, nu, B, c["delta_norm1"], c["delta_radius"])
            N = G.shape[1]; zz = cp.Variable(N)
            lbz = np.concatenate([np.tile(lb, c["size"]), [0.0, 0.0]]); ubz = np.concatenate([np.tile(ub, c["size"]), [1e6, 1e6]])
            sw = c["scale_w"]
            if c["objective"] == "unity":
                o = cp.sum_squares(cp.multiply(sw, zz[-2:] - 1)); cur = float(np.sum((sw * (sc - 1)) ** 2))
            else:
                o = -(sw @ zz[-2:]); cur = float(-(sw @ sc))
            try:
                pr = cp.Problem(cp.Minimize(o), [G @ zz <= h, zz >= lbz, zz <= ubz]); pr.solve(solver="CLARABEL"); better = pr.value
            except Exception:  # noqa: BLE001
                better = None
            if better is not None and cur - better > 1e-2 * scale:
                R.failB(dict(c, impl=[Xh, sc], better_scales=np.asarray(zz.value)[-2:], objective_impl=cur, objective_better=better),
                        "scales %s are not optimal for '%s': the feasible pair %s does better (%.6g vs %.6g)" % (sc.tolist(), c["objective"], np.asarray(zz.value)[-2:].tolist(), better, cur),
                        sig + ":suboptimal:neutral=" + c["neutral_kind"])
            else:
                R.failA(dict(c, delta=delta, objective=float(objv)), "scales not certified optimal (delta %s)" % delta)
