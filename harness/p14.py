"""C14 — estimator answers depend only on what is currently registered; queries are pure."""
import os
import sys
import struct
import pickle
import itertools
import hashlib
import subprocess
import threading
import numpy as np
from common import F, rs, vs, ms, dyadic, close, call, Toks, parse_rat
from fitlib import K_text, ub_text


def hsh(a):
    return hashlib.sha1(np.ascontiguousarray(a).tobytes()).hexdigest()


def opt_vec(v):
    return "0" if v is None else "1 " + vs(v)


def opt_ub(v):
    return "0" if v is None else "1 " + ub_text(v)


def parse_answer(T):
    kind = T.tok()
    if kind == "mat":
        return ("mat", T.mat())
    if kind == "vec":
        return ("vec", T.vec())
    if kind == "bools":
        n = T.nat(); return ("bools", [T.bool() for _ in range(n)])
    if kind == "adapt":
        k2 = T.tok(); return ("adapt", T.vec() if k2 == "vec" else T.mat())
    if kind == "bounds":
        lb = T.vec(); n = T.nat(); ub = [T.tok() for _ in range(n)]
        return ("bounds", lb, [None if u == "inf" else parse_rat(u) for u in ub])
    if kind == "notreg":
        return ("notreg",)
    if kind == "base":
        return ("base", T.vec())
    if kind == "wvec":
        return ("wvec", T.vec())
    if kind == "wmat":
        return ("wmat", T.mat())
    raise ValueError(kind)


def parse_digest(toks):
    T = Toks(toks)
    out = []
    while T.i < len(T.t):
        out.append(parse_answer(T))
    return out   # [A, K, base, bounds, sc, src, rc, insys, targets, weights]


def engine_digest(est, Bprobe):
    """engine-backed queries (gamut tests, sampling, ranges, fits) of an estimator on fixed probes, then the argument-less
    queries on the registered targets (they use the working copy self.B); fit() comes last: it replaces the working copy"""
    out = {}
    if not hasattr(est, "A"):
        return out
    bounded = bool(np.all(np.isfinite(est.ub)))
    nonneg = bool(np.all(est.lb >= 0))      # chromatic (l1-normalised) queries are only defined for non-negative captures
    under = est.A.shape[1] > est.A.shape[0]
    out["in_hull"] = np.asarray(est.in_hull(Bprobe.copy()))
    X, Bp = est.fit(Bprobe.copy(), solver="CLARABEL")
    out["fit_pred"] = np.asarray(Bp)
    if bounded:
        out["sample"] = np.asarray(est.sample_in_gamut(n=4, seed=7))
        if nonneg:
            out["in_hull_norm"] = np.asarray(est.in_hull(Bprobe.copy(), normalized=True))
        if under:
            lo, hi = est.range_of_solutions(Bprobe.copy(), error="ignore")
            out["range"] = np.asarray([lo, hi])
    if hasattr(est, "B"):
        out["in_hull_registered"] = np.asarray(est.in_hull())
        if bounded and under:
            # argument-less: the range of solutions of the CURRENT targets (working copy; after a fit() the fitted captures)
            lo, hi = est.range_of_solutions(error="ignore")
            out["range_registered"] = np.asarray([lo, hi])
        # fit of the registered targets with the registered weights (last: fit() replaces est.B by the fitted captures)
        est.fit(solver="CLARABEL")
        out["fit_registered"] = np.asarray(est.B, dtype=float).copy()
    return out


def make_twin(spec):
    """a fresh estimator holding the given registered values, reached by the shortest sequence of calls (constructor +
    one register_targets of the CURRENT targets: after a fit() these are the fitted captures, the model's workB)"""
    import dreye
    kw = {} if spec["w0"] is None else dict(w=spec["w0"].copy())
    if spec["sources"] is not None:
        kw.update(sources=spec["sources"].copy(), lb=spec["lb"].copy(), ub=spec["ub"].copy())
    t = dreye.ReceptorEstimator(spec["filt"].copy(), domain=1.0, K=spec["K"].copy(), baseline=spec["baseline"].copy(), **kw)
    if spec["tgt"] is not None:
        B, W = spec["tgt"]
        cur = B if spec["work"] is None else spec["work"]
        t.register_targets(cur.copy(), W=(None if W is None else W.copy()))
    return t


class FreshProcess:
    """engine digests of twin estimators, each computed in a process in which NO dreye function has been called before
    (a server process that only imports dreye and forks one child per request): process-wide state left behind by earlier
    calls (module-level caches, mutable default arguments) cannot be shared with the estimator under test.
    Requests are answered concurrently with the main process (a reader thread collects the answers)."""

    def __init__(self):
        self.p = subprocess.Popen([sys.executable, "-W", "ignore", os.path.abspath(__file__), "--fresh-server"],
                                  stdin=subprocess.PIPE, stdout=subprocess.PIPE)
        self.res = {}
        self.asked = set()
        self.t = threading.Thread(target=self._reader, daemon=True)
        self.t.start()

    def _reader(self):
        try:
            while True:
                hdr = self.p.stdout.read(8)
                if len(hdr) < 8:
                    return
                key, st, val = pickle.loads(self.p.stdout.read(struct.unpack("<Q", hdr)[0]))
                self.res[key] = (st, val)
        except Exception:  # noqa: BLE001
            return

    def submit(self, key, spec, Bprobe):
        self.asked.add(key)
        data = pickle.dumps((key, spec, Bprobe))
        try:
            self.p.stdin.write(struct.pack("<Q", len(data)) + data); self.p.stdin.flush()
        except OSError as e:
            self.res[key] = ("err", "fresh-process server not reachable: %s" % e)

    def finish(self):
        try:
            self.p.stdin.close()
        except OSError:
            pass
        self.t.join(timeout=1800)
        try:
            self.p.wait(timeout=30)
        except Exception:  # noqa: BLE001
            self.p.kill()

    def get(self, key):
        """(digest, None) / (None, error text) / (None, None) when the key was never submitted"""
        if key not in self.asked:
            return None, None
        st, val = self.res.get(key, ("err", "no answer from the fresh-process server"))
        return (val, None) if st == "ok" else (None, str(val))


def _fresh_server():
    import dreye  # noqa: F401  imported, never called in this (parent) process
    try:
        # third-party start-up costs (lazy imports of cvxpy's solver interfaces) are paid once here, not in every child
        import cvxpy as cp
        A = np.arange(1.0, 13.0).reshape(3, 4)
        for attr in (dict(pos=True), {}):
            x = cp.Variable(4, **attr); w = cp.Parameter(3, pos=True); b = cp.Parameter(3, **attr)
            prob = cp.Problem(cp.Minimize(cp.sum_squares(cp.multiply(A, w[:, None]) @ x - b)), [x >= np.zeros(4), x <= np.ones(4)])
            w.value = np.ones(3); b.value = np.ones(3)
            for solver in ("CLARABEL", "OSQP"):
                prob.solve(solver=solver)
        from scipy.optimize import linprog
        linprog([1.0, 1.0], A_eq=[[1.0, 2.0]], b_eq=[1.0], bounds=[(0, 1), (0, 1)])
    except Exception:  # noqa: BLE001
        pass
    inp, outp = sys.stdin.buffer, sys.stdout.buffer
    while True:
        hdr = inp.read(8)
        if len(hdr) < 8:
            return
        key, spec, Bprobe = pickle.loads(inp.read(struct.unpack("<Q", hdr)[0]))
        r, w = os.pipe()
        pid = os.fork()
        if pid == 0:
            os.close(r)
            try:
                res = (key, "ok", engine_digest(make_twin(spec), Bprobe))
            except BaseException as e:  # noqa: BLE001
                res = (key, "err", "%s: %s" % (type(e).__name__, str(e)[:300]))
            with os.fdopen(w, "wb") as f:
                f.write(pickle.dumps(res))
            os._exit(0)
        os.close(w)
        with os.fdopen(r, "rb") as f:
            data = f.read()
        os.waitpid(pid, 0)
        if not data:
            data = pickle.dumps((key, "err", "child died without an answer"))
        outp.write(struct.pack("<Q", len(data)) + data); outp.flush()


def run(R):
    import dreye
    quick = R.tier == "quick"
    R.rule = ("histories over the alphabet {register_system, register_bounds, register_adaptation, register_baseline, "
              "register_background_adaptation(add/replace), register_system_adaptation(add/replace), register_targets, fit() of the registered targets} with two "
              "argument choices each (register_system / register_bounds: three -- the third registers signed intensities, i.e. lower "
              "bounds that are negative for some (register_system) or all (register_bounds) sources; register_targets: four -- two target sets without importance weights, one with per-filter "
              "weights W, one with per-sample-and-filter weights W; the target sets hold targets outside the gamut, so the "
              "weighting decides the fit); default or per-filter constructor weights w: exhaustive up to length %d, random of "
              "length 5-%d (plus 0-2 inserted rejected registrations / re-registrations of the estimator's own arrays) beyond; read-only query bundles (captures, "
              "gamut tests, ranges, seeded sampling, fits with explicit targets; plus three per bundle of: relative=False queries (in_hull, "
              "normalised in_hull, sampling, intensity scaling, range_of_solutions), range_of_solutions with the default error='raise' (raises for "
              "targets outside the gamut / systems that are not underdetermined), bounded-hull requests while ub is infinite (raise), fits of "
              "explicit target sets of 1 (1-D), 2 or 4 rows, i.e. another number of rows than the registered per-sample weights -- a query that "
              "raises is still a query: state digest and caller arrays must be unchanged) interleaved at random. After EVERY step the "
              "estimator's A, K, baseline, bounds, system captures, relative captures, in_system, registered targets and fitting weights W are compared with the Lean "
              "state machine (exact rationals); at the end of every history the engine-backed queries -- including in_hull(), "
              "range_of_solutions() and fit() of the registered targets (no arguments: they use the current targets, which after a fit() "
              "are the fitted captures) with the registered weights -- are compared with a fresh "
              "twin estimator holding the same registered values (the values the harness registered last: sources, bounds, K, "
              "baseline, the CURRENT targets AND their weights, registered by the constructor and one register_targets call), once "
              "in the same process and (random histories, a tenth of the exhaustive ones) once in a fresh process in which no dreye "
              "function was called before, while the checking process has already served an earlier default-option estimator "
              "(state leaking through module-level objects / default arguments); chromatic (l1-normalised) queries only under "
              "non-negative lower bounds; caller arrays are hashed around every call. "
              "Rejected registrations (letter `rej` of the alphabet, exhaustive and random histories): register_bounds / register_system "
              "(one in four) with a bound vector the library refuses (a NaN entry, or finite and infinite entries mixed; lower or upper "
              "bound; array or list), alone or together with a valid NEW value for the other bound (and new sources): the call must raise, "
              "the model is not advanced (a registration call that raises registers nothing), the whole state digest must be what it "
              "was, and the following steps are compared with the model as before. "
              "Arguments that ARE the estimator's own arrays: every query bundle also calls two queries (one of fit "
              "gaussian/poisson, minimize_variance, fit_underdetermined, in_hull, range_of_solutions, hull_l1_scaling with est.B or "
              "est.target_B; one closed-form / geometric one, also in_system / system_capture with est.lb, est.ub) with the very array "
              "object the estimator holds and again with an equal copy: same kind of result, same numbers (fits 1e-5, ranges 1e-9 of "
              "the scale, others exactly), both raise or neither, state digest unchanged; random histories also re-register the "
              "estimator's own arrays (register_targets(est.B, W=est.W), register_bounds(lb=est.lb, ub=est.ub)), the model receiving the values. "
              "The twin's sources are those the harness registered last. Non-trivial: the "
              "history contains a re-registration or a query between two registrations." % (2 if quick else 3, 12 if quick else 25))
    rng0 = R.rng(0)
    nf, nd = 3, 6
    filt = dyadic(rng0, 0.125, 2, 3, size=(nf, nd))
    S1 = dyadic(rng0, 0.125, 2, 3, size=(4, nd)); S2 = dyadic(rng0, 0.125, 2, 3, size=(3, nd))
    U1 = dyadic(rng0, 1, 3, 2, size=4); L2 = dyadic(rng0, 0.0625, 0.25, 4, size=3)
    K1 = dyadic(rng0, 0.5, 2, 2, size=nf); K2 = np.eye(nf) + dyadic(rng0, 0, 0.25, 3, size=(nf, nf)) * (1 - np.eye(nf))
    b1 = np.array([0.5]); b2 = dyadic(rng0, 0, 1, 2, size=nf)
    bg1 = dyadic(rng0, 0.25, 2, 2, size=nd); bg2 = dyadic(rng0, 0.25, 2, 2, size=nd)
    x1 = dyadic(rng0, 0.25, 1, 2, size=4); x2 = dyadic(rng0, 0.25, 1, 2, size=4)
    B1 = dyadic(rng0, 1, 8, 2, size=(3, nf)); B2 = dyadic(rng0, 1, 8, 2, size=(2, nf))
    px = dyadic(rng0, 0.25, 1.5, 2, size=4); psig = dyadic(rng0, 0, 2, 2, size=(2, nd))
    Bprobe = dyadic(rng0, 1, 10, 2, size=(3, nf))
    # some targets far from the gamut (chromatically extreme): only then do importance weights decide the fit
    B1 = B1.copy(); B2 = B2.copy(); Bprobe = Bprobe.copy()
    B1[:, 0] *= 8.0; B2[:, nf - 1] *= 8.0; Bprobe[0, 1] *= 8.0
    Wf = np.array([1.0, 8.0, 0.0625])[rng0.permutation(nf)]            # per-filter importance weights, far from uniform
    W2 = dyadic(rng0, 0.0625, 8, 4, size=(3, nf))                      # per-sample-and-filter weights (for the 3 targets of B1)
    w0vec = np.array([4.0, 0.25, 1.0])[rng0.permutation(nf)]           # constructor weights `w` (default for targets registered without W)
    Lneg = -dyadic(rng0, 0.25, 1, 2, size=4)                           # negative lower bounds (intensities relative to a background)
    Lmix = np.array([-0.5, 0.125, -0.25, 0.0])[rng0.permutation(4)]
    TGT = [(B1, None), (B2, None), (B2, Wf), (B1, W2)]
    reg = {}   # what the harness registered last (targets and their weights), for the twin
    ALPHA = [("sys", 0), ("sys", 1), ("sys", 2), ("bnd", 0), ("bnd", 1), ("bnd", 2), ("adp", 0), ("adp", 1), ("bas", 0), ("bas", 1),
             ("bga", 0), ("bga", 1), ("sya", 0), ("sya", 1), ("tgt", 0), ("tgt", 1), ("tgt", 2), ("tgt", 3), ("fit", 0)]
    NREG = len(ALPHA)         # the letters that register valid new values (random histories are drawn from these ...)
    ALPHA = ALPHA + [("rej", 0)]      # a registration call that the library REJECTS (bounds that are not all finite / all infinite): it registers nothing
    # ... and get 0-2 further letters inserted at random places: a rejected registration, or a re-registration of the estimator's
    # OWN arrays (the argument is the very object the estimator holds)
    EXTRA = [("rej", 0), ("tgt", 4), ("bnd", 3)]

    def ns_of(est):
        return est.A.shape[1] if hasattr(est, "A") else 4

    def apply_impl(est, op, arg):
        """returns the protocol text of the op actually applied"""
        if op == "sys":
            reg["sources"] = S2 if arg == 1 else S1
            if arg == 0:
                est.register_system(S1.copy(), ub=U1.copy()); return "sys %s 0 %s" % (ms(S1), opt_ub(U1))
            if arg == 2:
                # signed intensities (relative to a background): lower bounds of mixed sign
                est.register_system(S1.copy(), lb=Lmix.copy(), ub=U1.copy()); return "sys %s %s %s" % (ms(S1), opt_vec(Lmix), opt_ub(U1))
            est.register_system(S2.copy(), lb=L2.copy()); return "sys %s %s 0" % (ms(S2), opt_vec(L2))
        n = ns_of(est)
        if op == "bnd":
            if arg == 3 and hasattr(est, "A"):
                # the estimator's own bound arrays handed back to it (values unchanged: the model re-registers the same values)
                lb, ub = est.lb.copy(), est.ub.copy()
                est.register_bounds(lb=est.lb, ub=est.ub); return "bnd %s %s" % (opt_vec(lb), opt_ub(ub))
            if arg == 0:
                lb = (L2 if n == 3 else np.r_[L2, 0.125])[:n]; est.register_bounds(lb=lb.copy()); return "bnd %s 0" % opt_vec(lb)
            if arg == 2:
                lb = Lneg[:n]; est.register_bounds(lb=lb.copy()); return "bnd %s 0" % opt_vec(lb)     # all lower bounds negative
            ub = (U1[:n] * 0.5); est.register_bounds(ub=ub.copy()); return "bnd 0 %s" % opt_ub(ub)
        if op == "adp":
            K = K1 if arg == 0 else K2
            est.register_adaptation(K.copy()); return "adp " + K_text(K)
        if op == "bas":
            b = b1 if arg == 0 else b2
            est.register_baseline(b.copy()); return "bas " + vs(b)
        matK = np.ndim(est.K) == 2
        if op == "bga":
            bg, ab, add = (bg1, True, False) if arg == 0 else (bg2, False, True)
            add = add and not matK
            est.register_background_adaptation(bg.copy(), add_baseline=ab, add=add); return "bga %s %d %d" % (vs(bg), ab, add)
        if op == "sya":
            x, ab, add = (x1, True, False) if arg == 0 else (x2, True, True)
            add = add and not matK
            x = x[:n]
            est.register_system_adaptation(x.copy(), add_baseline=ab, add=add); return "sya %s %d %d" % (vs(x), ab, add)
        if op == "tgt" and arg == 4 and hasattr(est, "B"):
            # re-registration of the estimator's OWN current targets and weights: the arguments are the very arrays it holds
            # (after a fit() the working copy holds the fitted captures, which thereby become the registered targets)
            B = np.array(est.B, dtype=float, copy=True); W = np.array(est.W, dtype=float, copy=True)
            est.register_targets(est.B, W=est.W)
            reg["tgt"] = (B, W); reg.pop("work", None)
            return "tgt " + ms(B) + ((" vec " + vs(W)) if W.ndim == 1 else (" mat " + ms(W)))
        if op == "tgt":
            B, W = TGT[arg % 4]
            if W is None:
                est.register_targets(B.copy())
            else:
                est.register_targets(B.copy(), W=W.copy())
            reg["tgt"] = (B, W); reg.pop("work", None)
            # the state machine stores the targets and the fitting weights (given W, or the constructor's w when W is not given)
            return "tgt " + ms(B) + (" none" if W is None else (" vec " + vs(W)) if W.ndim == 1 else (" mat " + ms(W)))
        if op == "fit":
            # fit() of the registered targets: a state-changing call (it stores the fitted capture in the working copy self.B that
            # later argument-less fits / gamut tests use). The engine's answer is handed to the model as the op's parameter.
            est.fit()
            reg["work"] = np.array(est.B, dtype=float, copy=True)
            return "fit " + ms(reg["work"])
        raise ValueError(op)

    def rejected_call(est, rng):
        """a registration call whose bounds the library rejects (it requires each bound vector to be all finite or all infinite:
        a NaN entry -- a failed calibration measurement --, or finite and infinite entries mixed), alone or together with a valid
        NEW value for the other bound / for the sources. Returns (description, thunk). The state machine's statement about a
        registration call that raises: nothing is registered."""
        via_system = bool(rng.integers(4) == 0)
        src = (S1, S2)[int(rng.integers(2))]
        n = src.shape[0] if via_system else ns_of(est)
        bad_side = str(rng.choice(["ub", "lb"])); bad_kind = str(rng.choice(["nan", "mixed-inf"]))
        other = str(rng.choice(["valid-new", "valid-new", "absent"]))
        good = dict(lb=dyadic(rng, 0.0625, 0.5, 4, size=n), ub=dyadic(rng, 3.5, 5, 2, size=n))
        bad = good[bad_side].copy(); j = int(rng.integers(n))
        bad[j] = np.nan if bad_kind == "nan" else (np.inf if bad_side == "ub" else -np.inf)
        kw = {bad_side: bad}
        o_side = "lb" if bad_side == "ub" else "ub"
        if other == "valid-new":
            kw[o_side] = good[o_side]
        if rng.integers(3) == 0:
            kw = {k_: v.tolist() for k_, v in kw.items()}
        desc = "%s(%s %s%s)" % ("register_system" if via_system else "register_bounds", bad_side, bad_kind, "" if other == "absent" else ", %s valid and new" % o_side)
        if via_system:
            return desc, (lambda: est.register_system(src.copy(), **kw))
        return desc, (lambda: est.register_bounds(**kw))

    def impl_digest(est):
        d = {}
        d["A"] = est.A.copy() if hasattr(est, "A") else None
        d["K"] = np.array(est.K, copy=True); d["base"] = np.array(est.baseline, copy=True)
        if hasattr(est, "A"):
            n = est.A.shape[1]
            d["lb"] = est.lb.copy(); d["ub"] = est.ub.copy()
            d["sc"] = est.system_capture(px[:n]); d["src"] = est.system_relative_capture(px[:n]); d["insys"] = est.in_system(px[:n])
        d["rc"] = est.relative_capture(psig)
        d["targets"] = np.array(est.target_B, copy=True) if hasattr(est, "target_B") else None
        d["W"] = np.array(est.W, copy=True)
        d["work"] = np.array(est.B, dtype=float, copy=True) if hasattr(est, "B") else None
        return d

    def query_bundle(est, rng):
        """read-only queries with caller-array hashing; returns list of problems"""
        probs = []
        arrs = dict(psig=psig.copy(), Bprobe=Bprobe.copy(), px=px.copy())
        h0 = {k_: hsh(v) for k_, v in arrs.items()}
        est.capture(arrs["psig"]); est.relative_capture(arrs["psig"])
        if hasattr(est, "A"):
            n = est.A.shape[1]
            est.system_capture(arrs["px"][:n])
            bounded = np.all(np.isfinite(est.ub))
            est.in_hull(arrs["Bprobe"])
            if bounded:
                if np.all(est.lb >= 0):     # the chromatic (l1-normalised) gamut is only defined for non-negative captures
                    est.in_hull(arrs["Bprobe"], normalized=True)
                est.sample_in_gamut(n=3, seed=1)
                est.gamut_l1_scaling(arrs["Bprobe"]); 
                if est.A.shape[1] > est.A.shape[0]:
                    est.range_of_solutions(arrs["Bprobe"], error="ignore")
            est.fit(arrs["Bprobe"])
            if rng is not None:
                # further read-only queries, three per bundle drawn at random (own stream seeded from the history's): queries in ABSOLUTE
                # capture space (relative=False), queries that legitimately END WITH AN EXCEPTION (range_of_solutions with the default
                # error='raise' for a target outside the gamut or a system that is not underdetermined; a bounded-hull request while ub
                # is infinite), and fits of explicit target sets with ANOTHER NUMBER OF ROWS than the registered targets / per-sample
                # weights (one 1-D target, two rows, four rows). Whether such a query returns or raises is counted, not judged; like every
                # query it must leave all later answers (the state digest compared by the caller) and the caller's arrays alone.
                qrng = np.random.default_rng(int(rng.bit_generator.state["state"]["state"]) % (2 ** 63))     # derived from the history's stream WITHOUT advancing it
                Bp = arrs["Bprobe"]
                extra = [("in_hull(relative=False)", lambda: est.in_hull(Bp, relative=False)),
                         ("range_of_solutions(error='raise')", lambda: est.range_of_solutions(Bp)),
                         ("range_of_solutions(relative=False, error='raise')", lambda: est.range_of_solutions(Bp, relative=False)),
                         ("range_of_solutions(relative=False, error='raise')", lambda: est.range_of_solutions(Bp, relative=False)),
                         ("sample_in_gamut(relative=False)", lambda: est.sample_in_gamut(n=3, seed=1, relative=False)),
                         ("gamut_l1_scaling(relative=False)", lambda: est.gamut_l1_scaling(Bp, relative=False)),
                         ("fit(one 1-D target)", lambda: est.fit(Bp[0])), ("fit(two targets)", lambda: est.fit(Bp[:2])),
                         ("fit(four targets)", lambda: est.fit(np.vstack([Bp, Bp[:1]])))]
                if np.all(est.lb >= 0):
                    extra.append(("in_hull(normalized=True, relative=False)", lambda: est.in_hull(Bp, normalized=True, relative=False)))
                wkind = ("per-sample weights" if np.ndim(est.W) == 2 else "per-filter weights")
                for j in qrng.permutation(len(extra))[:3]:
                    name, thunk = extra[int(j)]
                    st_q, _ = call(thunk)
                    R.count("query:%s%s:%s:%s" % (name, (" [%s registered]" % wkind) if name.startswith("fit(") else "",
                                                    "ub finite" if bounded else "no upper limit", "returns" if st_q == "ok" else "raises " + st_q))
        for k_, v in arrs.items():
            if hsh(v) != h0[k_]:
                probs.append("caller array `%s` was modified by a query" % k_)
        if rng is not None and hasattr(est, "A"):
            probs += aliased_queries(est, rng)
        return probs

    def aliased_queries(est, rng):
        """queries whose explicit argument is one of the estimator's OWN arrays (est.B, est.target_B, est.lb, est.ub: `est.fit(est.B)` is
        a natural thing to write): a query with explicit arguments is a function of the argument's VALUES and the registered values,
        so it answers like the same call on an equal copy (same kind of result, same numbers to the accuracy the twin comparison
        uses) -- and, like every query, changes nothing (checked by the caller on the state digest)."""
        probs = []
        n = est.A.shape[1]
        bounded = bool(np.all(np.isfinite(est.ub))); nonneg = bool(np.all(est.lb >= 0)); under = n > est.A.shape[0]
        cands = [("in_system", "lb", {}), ("system_relative_capture", "lb", {})]
        if bounded:
            cands += [("in_system", "ub", {}), ("system_capture", "ub", {})]
        if hasattr(est, "B"):
            for own in ("B", "B", "target_B"):
                cands += [("fit", own, {}), ("fit", own, {}), ("minimize_variance", own, {}), ("in_hull", own, {})]
                if nonneg:
                    cands.append(("fit", own, dict(model="poisson")))
                if under:
                    cands.append(("fit_underdetermined", own, {}))
                if bounded:
                    cands.append(("hull_l1_scaling", own, {}))
                    if under:
                        cands.append(("range_of_solutions", own, dict(error="ignore")))
        cheap = [c_ for c_ in cands if c_[0] in ("in_system", "system_capture", "system_relative_capture", "in_hull", "hull_l1_scaling")]
        # one call from the whole list (mostly engine-backed fits) and one of the closed-form / geometric ones per bundle
        for pool in (cands, cheap):
            meth, own, kw = pool[int(rng.integers(len(pool)))]
            obj = getattr(est, own)
            if not isinstance(obj, np.ndarray):
                continue
            what = "%s(est.%s%s)" % (meth, own, "".join(", %s=%r" % kv for kv in kw.items()))
            R.count("query-with-own-array:" + what)
            st_a, r_a = call(getattr(est, meth), obj, **kw)
            st_c, r_c = call(getattr(est, meth), np.array(obj, copy=True), **kw)
            if st_a != st_c:
                probs.append("%s %s but the same call on an equal copy of the array %s" % (what, "returns" if st_a == "ok" else "raises (%s)" % r_a, "returns" if st_c == "ok" else "raises (%s)" % r_c))
                continue
            if st_a != "ok":
                R.count("query-with-own-array:both-raise-%s" % st_a)
                continue
            ta = r_a if isinstance(r_a, tuple) else (r_a,); tc = r_c if isinstance(r_c, tuple) else (r_c,)
            if type(r_a) is not type(r_c) or len(ta) != len(tc):
                probs.append("%s returns a %s, the same call on an equal copy of the array a %s" % (what, type(r_a).__name__, type(r_c).__name__))
                continue
            for a, b in zip(ta, tc):
                a = np.asarray(a); b = np.asarray(b)
                if a.dtype == object or b.dtype == object or a.shape != b.shape:
                    probs.append("%s: result of shape %s, on an equal copy of the array %s" % (what, a.shape, b.shape)); break
                if a.dtype.kind == "b" or meth in ("in_system", "system_capture", "system_relative_capture", "hull_l1_scaling"):
                    same = np.array_equal(a, b, equal_nan=(a.dtype.kind == "f"))
                else:
                    tol = 1e-9 if meth == "range_of_solutions" else 1e-5
                    fin = np.isfinite(a)
                    same = np.array_equal(fin, np.isfinite(b)) and np.allclose(a[fin], b[fin], rtol=0, atol=tol * (float(np.max(np.abs(a[fin]))) + 1 if fin.any() else 1.0))
                if not same:
                    probs.append("%s answers differently from the same call on an equal copy of the array" % what); break
        return probs

    def spec_of(est, w0):
        """the registered values of the estimator (bounds, K, baseline read back: they are compared with the model after every step;
        sources, targets and weights as the harness registered them last)"""
        has = hasattr(est, "A")
        return dict(filt=filt, w0=w0, K=np.array(est.K, dtype=float, copy=True), baseline=np.array(est.baseline, dtype=float, copy=True),
                    sources=(np.array(reg["sources"], copy=True) if has else None), lb=(est.lb.copy() if has else None),
                    ub=(est.ub.copy() if has else None), tgt=reg.get("tgt"), work=reg.get("work"))

    fresh = FreshProcess()
    # the process has been used before: an earlier, unrelated estimator (default bounds, default options) registered targets, was
    # queried and fitted. Every history below -- also a single replayed one -- runs in a process with this past; the fresh-process
    # twins do not share it.
    earlier = dreye.ReceptorEstimator(filt.copy(), domain=1.0, sources=S1.copy(), ub=U1.copy())
    earlier.register_targets(Bprobe.copy())
    query_bundle(earlier, None)
    earlier.fit()
    earlier.range_of_solutions(error="ignore")
    histories = []
    for L in range(1, (2 if quick else 3) + 1):
        for h in itertools.product(range(len(ALPHA)), repeat=L):
            histories.append(("ex", [ALPHA[i] for i in h]))
    nrand = 60 if quick else 600
    for i in range(nrand):
        rng = R.rng(2, i)
        L = int(rng.integers(5, 13 if quick else 26))
        h = [ALPHA[int(j)] for j in rng.integers(0, NREG, size=L)]
        rx = R.rng(4, i)
        for _ in range(int(rx.choice([0, 1, 1, 2, 2]))):
            h.insert(int(rx.integers(0, len(h) + 1)), EXTRA[int(rx.integers(len(EXTRA)))])
        histories.append(("rand", h))
    jobs = []
    for hi, (hk, hist) in enumerate(histories):
        k = "h%d" % hi
        if not R.want(k):
            continue
        rng = R.rng(3, hi)
        start_registered = bool(rng.integers(2))
        reg.clear()
        w0 = w0vec if (hk == "rand" and rng.integers(3) == 0) or (hk == "ex" and hi % 4 == 1) else None
        est = dreye.ReceptorEstimator(filt.copy(), domain=1.0, K=1.0, baseline=0.0, **({} if w0 is None else dict(w=w0.copy())))
        texts = []
        digests = []
        problems = []
        problems_A = []
        done_ops = []
        queried_between = False
        err = None
        try:
            digests.append(("ok", impl_digest(est)))
            done_ops = [("init", "")]      # the calls that advance the model (one digest each); rejected calls are not among them
            seq = ([("sys", 0)] if start_registered else []) + hist
            for si, (op, arg) in enumerate(seq):
                with_queries = (hk == "rand" and rng.integers(2) == 0) or (hk == "ex" and hi % 7 == 0)
                if with_queries:
                    before = impl_digest(est)
                    problems += query_bundle(est, rng)
                    after = impl_digest(est)
                    queried_between = True
                    for key in before:
                        a, b = before[key], after[key]
                        if (a is None) != (b is None) or (a is not None and not np.array_equal(a, b)):
                            problems.append("a read-only query changed `%s`" % key)
                if op == "rej":
                    # a registration call the library rejects: the model is not advanced (a call that raises registers nothing), every
                    # answer of the state digest is what it was, and the following steps are compared with the model as before
                    desc, thunk = rejected_call(est, rng)
                    before = impl_digest(est)
                    st, o = call(thunk)
                    after = impl_digest(est)
                    R.count("rejected-registration:" + desc + (":no system registered" if not hasattr(est, "A") else ""))
                    if st == "ok":
                        # (not on the unchanged library) accepted: the model has no statement about such values; the history ends here
                        problems_A.append("%s was accepted by the library: the state machine only describes bounds that are all finite or all infinite" % desc)
                        break
                    for key in before:
                        a, b = before[key], after[key]
                        if (a is None) != (b is None) or (a is not None and not np.array_equal(a, b)):
                            problems.append("a rejected registration call, %s (raised %s), changed `%s`" % (desc, st, key))
                    continue
                if (op in ("bnd", "sya", "tgt") and not hasattr(est, "A")) or (op == "fit" and not (hasattr(est, "A") and hasattr(est, "B"))):
                    # the call asserts in the code; check that it does and leaves the state alone
                    st, o = call(apply_impl, est, op, arg)
                    if st != "assertion":
                        problems.append("%s without a registered system did not assert (%s)" % (op, st))
                    # protocol text for the model (it answers `assert`)
                    dummy = {"bnd": "bnd 0 0", "sya": "sya %s 1 0" % vs(x1), "tgt": "tgt " + ms(B1) + " none", "fit": "fit " + ms(B1)}[op]
                    texts.append(dummy); digests.append(("assert", None)); done_ops.append((op, arg))
                    continue
                texts.append(apply_impl(est, op, arg))
                digests.append(("ok", impl_digest(est))); done_ops.append((op, arg))
            eng = eng_twin = None
            if hk == "rand" or hi % 5 == 0:
                spec = spec_of(est, w0)
                eng = engine_digest(est, Bprobe)
                eng_twin = engine_digest(make_twin(spec), Bprobe)
                if hasattr(est, "A") and (hk == "rand" or hi % 10 == 0):
                    fresh.submit(k, spec, Bprobe)      # answered concurrently; collected after the last history
        except Exception as e:  # noqa: BLE001
            err = "%s: %s" % (type(e).__name__, str(e)[:200])
            eng = eng_twin = None
        R.driver.ask(k, "hist", ms(filt), "step 1 1", "vec " + vs(np.array([1.0])), vs(np.array([0.0])), vs(np.ones(nf) if w0 is None else w0), vs(px), ms(psig), len(texts), " ".join(texts))
        ops_named = [a for a, _ in (([("sys", 0)] if start_registered else []) + hist)]
        rereg = len(set(ops_named)) < len(ops_named)
        jobs.append((k, hk, hist, start_registered, digests, done_ops, problems, problems_A, err, eng, eng_twin, rereg or queried_between))
        R.count("history:%s" % hk); R.count("length:%d" % len(hist)); R.count("constructor_w:%s" % ("default" if w0 is None else "per-filter"))
        if eng is not None and hasattr(est, "A"):
            R.count("lower_bounds_at_end:%s" % ("all >= 0" if np.all(est.lb >= 0) else "all negative" if np.all(est.lb < 0) else "mixed sign"))
            R.count("twin:%s" % ("same process and fresh process" if k in fresh.asked else "same process"))
            if "range_registered" in eng:
                R.count("argument-less range_of_solutions:%s" % ("after fit() (working copy = fitted captures)" if "work" in reg else "targets as registered"))
        if eng is not None and "tgt" in reg:
            R.count("registered_targets_at_end:%s,%s" % ("weights " + ("none" if reg["tgt"][1] is None else "%dD" % reg["tgt"][1].ndim),
                                                      "some outside gamut" if ("in_hull_registered" in eng and not np.all(eng["in_hull_registered"])) else "all inside"))
    fresh.finish()
    R.driver.run()
    for k, hk, hist, start_registered, digests, done_ops, problems, problems_A, err, eng, eng_twin, nontriv in jobs:
        eng_fresh, fresh_err = fresh.get(k)
        c = dict(k=k, kind=hk, start_registered=start_registered, history=["%s/%d" % (a, b) for a, b in hist])
        R.case(c, (k,) if nontriv else None, sample=(hk == "rand" and k.endswith("3")))
        sig = "C14"
        if err:
            R.failB(dict(c, impl_error=err), "history raised: %s" % err, sig + ":raises"); continue
        for p_ in sorted(set(problems_A)):
            R.failA(c, p_)
        for p_ in sorted(set(problems)):
            R.failB(c, p_, sig + ":" + ("caller-array" if "caller" in p_ else "query-changed-state" if "read-only" in p_ else
                                        "rejected-registration-changed-state" if "rejected registration" in p_ else
                                        "argument-identity" if "equal copy" in p_ else "assert"))
        raw = " ".join(R.driver.ans.get(k, []))
        if raw.startswith("ERR"):
            R.failA(c, "model error: " + raw); continue
        steps = [s.split() for s in raw.split(" ; ")]
        if len(steps) != len(digests):
            R.failA(c, "model returned %d digests for %d steps" % (len(steps), len(digests))); continue
        mismatch = None
        for si, (toks, (tag, d)) in enumerate(zip(steps, digests)):
            if toks[0] == "assert" or tag == "assert":
                if toks[0] != tag:
                    mismatch = "step %d: model says %s, code %s" % (si, toks[0], tag)
                continue
            A_m, K_m, base_m, bnds_m, sc_m, src_m, rc_m, ins_m, tg_m, w_m, wk_m = parse_digest(toks[1:])

            def cmp_vec(name, impl, model, scale=None):
                impl = np.asarray(impl, dtype=float).ravel()
                model = [x for row in model for x in row] if (model and isinstance(model[0], list)) else model
                if len(impl) != len(model):
                    return "%s has %d entries, model %d" % (name, len(impl), len(model))
                s_ = (float(np.max(np.abs(impl))) if len(impl) else 0.0) + 1e-300
                for a, b in zip(impl, model):
                    if not close(a, b, s_, 1e-10):
                        return "%s = %r, stateless model %s" % (name, float(a), float(b))
                return None
            checks = []
            if d["A"] is None:
                if A_m[0] != "notreg":
                    mismatch = "step %d: code has no system, model has one" % si
                checks.append(cmp_vec("K", d["K"], K_m[1])); checks.append(cmp_vec("relative_capture", d["rc"], rc_m[1]))
            else:
                if A_m[0] == "notreg":
                    mismatch = "step %d: model has no system" % si
                else:
                    n = d["A"].shape[1]
                    checks += [cmp_vec("A", d["A"], A_m[1]), cmp_vec("K", d["K"], K_m[1]),
                               cmp_vec("lb", d["lb"], bnds_m[1]),
                               cmp_vec("system_capture", d["sc"], sc_m[1]), cmp_vec("system_relative_capture", d["src"], src_m[1]),
                               cmp_vec("relative_capture", d["rc"], rc_m[1])]
                    ubm = bnds_m[2]
                    for a, b in zip(d["ub"], ubm):
                        if (b is None) != (not np.isfinite(a)) or (b is not None and F(a) != b):
                            checks.append("ub = %s, model %s" % (d["ub"].tolist(), [None if u is None else float(u) for u in ubm])); break
                    if list(np.asarray(d["insys"]).astype(bool)) != ins_m[1][:n]:
                        checks.append("in_system = %s, model %s" % (d["insys"], ins_m[1]))
            # registered targets and fitting weights (register_targets(B, W): W, or the constructor's w when W is not given)
            if (d["targets"] is None) != (tg_m[0] == "notreg"):
                checks.append("targets registered: code %s, model %s" % (d["targets"] is not None, tg_m[0] != "notreg"))
            elif d["targets"] is not None:
                checks.append(cmp_vec("registered targets", d["targets"], tg_m[1]))
            if (d["work"] is None) != (wk_m[0] == "notreg"):
                checks.append("working copy of the targets present: code %s, model %s" % (d["work"] is not None, wk_m[0] != "notreg"))
            elif d["work"] is not None:
                checks.append(cmp_vec("working copy self.B (what an argument-less fit / gamut test uses)", d["work"], wk_m[1]))
            Wi = np.asarray(d["W"], dtype=float)
            if (Wi.ndim == 2) != (w_m[0] == "wmat"):
                checks.append("fitting weights W have %d dims, model says %s" % (Wi.ndim, w_m[0]))
            else:
                checks.append(cmp_vec("fitting weights W", Wi, w_m[1]))
            bb = np.atleast_1d(d["base"]).astype(float)
            if len(bb) != len(base_m[1]) or any(F(a) != b for a, b in zip(bb, base_m[1])):
                checks.append("baseline = %s, model %s" % (bb.tolist(), [float(v) for v in base_m[1]]))
            bad = [x for x in checks if x]
            if bad and not mismatch:
                mismatch = "after step %d (%s): %s" % (si, "/".join(map(str, done_ops[si])), bad[0])
            if mismatch:
                break
        if mismatch:
            R.failB(dict(c, mismatch=mismatch), "the estimator's answers differ from the stateless model of its registered values: " + mismatch, sig + ":state-mismatch")
        if fresh_err and ("server not reachable" in fresh_err or "no answer from the fresh-process server" in fresh_err):
            # the helper process itself is unavailable (resources): the same-process twin comparison above still stands; recorded, not alarmed
            R.count("fresh-process-twin:unavailable")
            R.notes["fresh_process_unavailable"] = R.notes.get("fresh_process_unavailable", 0) + 1
        elif fresh_err:
            R.failA(c, "the twin estimator could not be evaluated in a fresh process: " + fresh_err)
        for other, where, tag in ((eng_twin, "a fresh estimator", "history-dependence"),
                                  (eng_fresh, "a fresh estimator in a fresh process (no earlier dreye call)", "process-history-dependence")):
            if eng is None or other is None:
                continue
            for key in eng:
                a, b = eng[key], other.get(key)
                tol = 1e-5 if key in ("fit_pred", "fit_registered") else (1e-9 if key in ("range", "range_registered") else 0)
                same = b is not None and a.shape == b.shape and (np.array_equal(a, b) if tol == 0 else np.allclose(a, b, rtol=0, atol=tol * (np.max(np.abs(a)) + 1)))
                if not same:
                    R.failB(dict(c, query=key, after_history=a, fresh_twin=b), "`%s` after this history differs from %s with the same registered values" % (key, where), sig + ":" + tag + ":" + key)


if __name__ == "__main__" and sys.argv[1:2] == ["--fresh-server"]:
    _fresh_server()
