"""C11 — layer decomposition honours every constraint and never worsens its fit."""
import itertools
import numpy as np
from fractions import Fraction
from common import F, rs, vs, ms, dyadic, close, call, parse_rat, as_given
from systems import gen_A, gen_K, gen_baseline, apply_K
from fitlib import certify_rows, fsqrt, ub_text
from certlib import cert_args_text
from p10 import lp_duals


def drain():
    from dreye import _verif
    return _verif.drain()


# large instances only: an exception that reports the failure of the solver the harness named (cvxpy SolverError / "Optimization did not
# converge") is loud, not a wrong result; set to True to have it reported as a violation like every other exception
LOUD_SOLVER_FAILURE_IS_VIOLATION = False


def run(R):
    import dreye
    from dreye.api.optimize.lsq_linear import lsq_linear_decomposition
    ncase = 24 if R.tier == "quick" else 200
    R.rule = ("systems with finite bounds (3 receptors x 3-4 sources), 6-12 samples, 1-3 layers, 0/1 masks with at least one source "
              "per layer (sampled; a source may be forbidden in every layer, so single-layer fits with switched-off sources occur; masks handed in as "
              "float/integer/boolean arrays, Fortran order or nested lists), through lsq_linear_decomposition and through "
              "ReceptorEstimator.fit_decomposition, equal-L1 on/off, subsampling "
              "off (None, or the function's default when the argument is omitted), on a proper part of the samples (fractions 0.5, 0.75) and on a "
              "sub-sample that covers ALL samples in random order (1.0, integer 1, 'fast', or the estimator's default when the argument is omitted), "
              "opacity bounds (lower 0 or 0.25, upper 1 or 0.75), seeds, K/baseline; plus a few LARGE sample sets per run (cases L0, L1, ...: 4097-6000 samples -- a third of them "
              "4097-4100 --, 1-3 layers, subsampling on: 'fast' / the estimator's default = 1028 samples in the loop, or fractions 1/16, 1/8, 1/4, so the opacities of all samples are fitted last; "
              "targets = per-sample mixtures or a noisy layered image whose true opacities exceed the opacity bounds; all predicates on all rows, the exact per-sample optimality on the 8 rows a "
              "floating-point screening of all rows ranks worst plus 16 random rows; a large instance on which the named interior-point solver gives up with a loud SolverError is counted, must fail "
              "identically when repeated, and is drawn again). On dreye's (X, P, B_pred): bounds, mask zeros, equal layer totals, opacity "
              "bounds, B_pred = P X A'^T + baseline, the hook-recorded loss sequence is non-increasing (within solver slack), the "
              "same seed gives the same arrays when the call is repeated with the caller's same target array (and estimator) -- directly, or after ANOTHER legitimate call on the same data "
              "in between (other seed, solver options passed through **opt_kwargs, the default solver) --, and the factor fitted last is optimal given the other: opacities by the exact KKT "
              "check per sample in the caller's sample order (row i of P against row i of the targets), intensities by a certified gap from LP multipliers through the verified linLower. Non-trivial: "
              "a mask containing zeros, or >= 2 layers with the equal-L1 constraint. "
              "The fully judged calls name the interior-point solver; every second case additionally runs the same request with the DEFAULT solver (argument omitted, or "
              "solver='SCS' spelled out; first-order, accuracy 1e-4): call, a call with pass-through solver options (iteration budget / looser or tighter eps) or another seed, "
              "the first call again. On these: the repeated call returns byte-identical arrays, B_pred = P X A'^T + baseline, bounds / mask / equal totals / opacity bounds within 2e-3 (solver accuracy).")
    masks_all = {}
    jobs = []
    for ci in range(ncase):
        k = "c%d" % ci
        if not R.want(k):
            continue
        rng = R.rng(1, ci)
        nf = 3; ns = int(rng.integers(3, 5)); size = int(rng.integers(6, 13))
        nl = int(rng.integers(1, 4))
        A = gen_A(rng, nf, ns, lo=0.25, hi=2.0, bits=2)
        kk, K = gen_K(rng, nf, kinds=("none", "vector"))
        bk, base = gen_baseline(rng, nf, kinds=("zero", "vector"))
        lb = np.zeros(ns); ub = dyadic(rng, 1, 3, 2, size=ns)
        Ap, bp = apply_K(A, K, base)
        # 0/1 masks with at least one source per layer; "full" = additionally every source is allowed in some layer (with a single
        # layer that would leave only the all-ones mask, so it is not asked for there: one layer with switched-off sources is a legitimate request)
        full = bool(nl > 1 and rng.integers(2))
        while True:
            mask = (rng.random((nl, ns)) < 0.7).astype(float)
            if np.all(mask.sum(1) >= 1) and (not full or np.all(mask.sum(0) >= 1)):
                break
        if rng.integers(3) == 0:
            mask = None
        eq = bool(rng.integers(2))
        via = "estimator" if ci % 3 == 0 else "function"
        # subsampling: off / a proper part of the samples / a sub-sample that covers every sample (drawn in random order); "omitted" = the
        # argument is not passed, so the default applies (None for the function, 'fast' = everything up to 1028 samples for the estimator)
        subkind = ("none", "none", "omitted", "part", "part", "all", "all", "all")[int(rng.integers(8))]
        if subkind == "none":
            sub = None
        elif subkind == "omitted":
            sub = "omitted"
        elif subkind == "part":
            sub = float(rng.choice([0.5, 0.75]))
        else:
            sub = [1.0, 1, "fast"][int(rng.integers(3))]
        # the fraction in effect (None = no subsampling: the intensities are fitted last; otherwise the opacities of all samples are)
        sub_eff = None if (sub is None or (sub == "omitted" and via == "function")) else (sub if isinstance(sub, float) else 1.0)
        lbp = float(rng.choice([0.0, 0.0, 0.25])); ubp = float(rng.choice([1.0, 0.75]))
        seed = int(rng.integers(100))
        Xt = lb + dyadic(rng, 0.1, 0.9, 3, size=(size, ns)) * (ub - lb)
        B = Xt @ Ap.T + bp
        c = dict(k=k, nf=nf, ns=ns, size=size, n_layers=nl, A=A, K=K, K_kind=kk, baseline=base, baseline_kind=bk, lb=lb, ub=ub, mask=mask, equal_l1=eq,
                 subsample=sub, subsample_in_effect=sub_eff, lbp=lbp, ubp=ubp, seed=seed, B=B)
        for key in ("n_layers", "K_kind", "baseline_kind", "equal_l1", "lbp", "ubp"):
            R.count("%s:%s" % (key, c[key]))
        R.count("subsample:%r" % (sub,))
        R.count("subsample in effect:%s" % ("off (intensities fitted last)" if sub_eff is None else
                                            ("all samples, shuffled (opacities fitted last)" if sub_eff == 1.0 else "%d of %d samples (opacities fitted last)" % (int(size * sub_eff), size))))
        mk = "none" if mask is None else ("zeros" if np.any(mask == 0) else "ones")
        R.count("mask:%s" % mk); R.count("layers=%d,mask:%s" % (nl, mk))
        if mask is not None:
            R.count("mask:%s" % ("every source allowed somewhere" if np.all(mask.sum(0) >= 1) else "a source forbidden in every layer"))
        # representation of the mask (values unchanged): float / integer / boolean array, Fortran order, nested list
        rg = R.rng(3, ci)
        mask_given = None
        if mask is not None:
            if rg.integers(5) == 0:
                mask_given = mask.astype(bool); R.count("given:mask:bool")
            else:
                mask_given = as_given(rg, mask.copy(), R, "mask", kinds=("same", "int", "fortran", "list"))
        c["via"] = via; R.count("via:%s" % via)
        kw = dict(n_layers=nl, mask=mask_given, lbp=lbp, ubp=ubp, max_iter=15, seed=seed,
                  equal_l1norm_constraint=eq, solver="CLARABEL")
        if sub != "omitted":
            kw["subsample"] = sub
        Bg = B.copy()    # the caller's target array: the SAME object is handed to both calls (c["B"] keeps the values)
        drain()
        if via == "estimator":
            filt = np.hstack([np.zeros((nf, 1)), A, np.zeros((nf, 1))]); src = np.hstack([np.zeros((ns, 1)), np.eye(ns), np.zeros((ns, 1))])
            stE, est = call(dreye.ReceptorEstimator, filt, domain=1.0, K=(1.0 if K is None else K), baseline=base, sources=src, lb=lb, ub=ub)
            fit = (lambda kw, stE=stE, est=est: (stE, est)) if stE != "ok" else (lambda kw, est=est, Bg=Bg: call(est.fit_decomposition, Bg, **kw))
        else:
            fit = lambda kw, A=A, Bg=Bg, lb=lb, ub=ub, K=K, base=base: call(lsq_linear_decomposition, A, Bg, lb=lb, ub=ub, K=K, baseline=base, return_pred=True, **kw)
        # ---- call history (own random stream). The repeated call must give the same arrays whether or not another legitimate call
        # on the same data (same estimator) happened in between: other seed, solver options passed through **opt_kwargs, other solver
        hr = R.rng(5, ci)
        between = str(hr.choice(["nothing", "other-seed", "solver-options", "default-solver"]))
        c["between_calls"] = between; R.count("between the two identical calls:%s" % between)
        st, out = fit(kw)
        ev = [e for e in drain() if e["event"] == "decomp_iter"]
        if between == "other-seed":
            fit(dict(kw, seed=seed + 1))
        elif between == "solver-options":
            fit(dict(kw, **[dict(tol_gap_abs=1e-4, tol_gap_rel=1e-4, tol_feas=1e-4), dict(tol_gap_rel=1e-10), dict(equilibrate_enable=False)][int(hr.integers(3))]))
        elif between == "default-solver":
            fit({a: b for a, b in kw.items() if a != "solver"})
        st2, out2 = fit(kw)
        drain()
        job = dict(c=c, st=st, out=out, ev=ev, st2=st2, out2=out2, Ap=Ap, bp=bp)
        jobs.append(job)
        # ---- the same request with the DEFAULT solver (every second case): call / another call with pass-through solver options / call again
        if hr.integers(2) == 0:
            kwS = {a: b for a, b in kw.items() if a != "solver"}
            spelled = bool(hr.integers(3) == 0)
            if spelled:
                kwS["solver"] = "SCS"
            betweenS = str(hr.choice(["nothing", "other-seed", "iteration-budget", "iteration-budget", "loose-eps", "tight-eps"]))
            extra = {"nothing": None, "other-seed": dict(seed=seed + 1), "iteration-budget": dict(max_iters=int(hr.choice([3, 10, 50]))),
                     "loose-eps": dict(eps=1e-2), "tight-eps": dict(eps=1e-6, max_iters=20000)}[betweenS]
            R.count("default solver:%s" % ("spelled out" if spelled else "argument omitted"))
            R.count("default solver, between the two identical calls:%s" % betweenS)
            s1 = fit(kwS)
            sb = fit(dict(kwS, **extra)) if extra is not None else None
            s2 = fit(kwS)
            drain()
            job["scs"] = dict(solver=("SCS" if spelled else "omitted"), between=betweenS, between_options=extra, between_status=(None if sb is None else sb[0]), s1=s1, s2=s2)
            c["default_solver_history"] = dict(solver=job["scs"]["solver"], between=betweenS, between_options=extra)
    # ---- LARGE sample sets (the property does not bound the number of samples; an image has thousands of pixels): a few instances per run
    # (own random stream) with more than 4096 samples, subsampling on -- so the intensities are fitted on a part (the estimator's default
    # 'fast' = 1028 samples, or a fraction) and the opacities of ALL samples are fitted last --, judged like every other case; the
    # "fitted last is optimal" clause is decided exactly on a part of the rows: random ones plus those a float screening of all rows ranks worst
    nlarge = 2 if R.tier == "quick" else 6
    fitted = set()
    for li, attempt in [(li, a) for li in range(nlarge) for a in range(3)]:
        k = "L%d" % li
        if not R.want(k) or li in fitted:
            continue
        rng = R.rng(21, li) if attempt == 0 else R.rng(21, li, attempt)
        nf = 3; ns = int(rng.integers(3, 5))
        size = int(rng.integers(4097, 4101)) if rng.integers(3) == 0 else int(rng.integers(4101, 6001))
        nl = int(rng.choice([1, 2, 2, 3, 3]))
        A = gen_A(rng, nf, ns, lo=0.25, hi=2.0, bits=2)
        kk, K = gen_K(rng, nf, kinds=("none", "vector"))
        bk, base = gen_baseline(rng, nf, kinds=("zero", "vector"))
        lb = np.zeros(ns); ub = dyadic(rng, 1, 3, 2, size=ns)
        Ap, bp = apply_K(A, K, base)
        while True:
            mask = (rng.random((nl, ns)) < 0.7).astype(float)
            if np.all(mask.sum(1) >= 1):
                break
        if rng.integers(2) == 0:
            mask = None
        eq = bool(rng.integers(2))
        via = "estimator" if li % 2 == 0 else "function"
        sub = (["omitted", "fast"] if via == "estimator" else ["fast", "fast"])[int(rng.integers(2))] if rng.integers(2) else float(rng.choice([0.0625, 0.125, 0.25]))
        nfit = min(size, 1028) if isinstance(sub, str) else int(size * sub)
        lbp = float(rng.choice([0.0, 0.0, 0.25])); ubp = float(rng.choice([1.0, 0.75]))
        seed = int(rng.integers(100))
        tkind = str(rng.choice(["per-sample mixtures", "noisy layered image"]))
        if tkind == "per-sample mixtures":
            # every sample is the capture of its own in-bound mixture (not a layered image at all)
            B = (lb + dyadic(rng, 0.1, 0.9, 3, size=(size, ns)) * (ub - lb)) @ Ap.T + bp
        else:
            # a layered image (opacities over the whole range 0..1, also beyond the opacity bounds asked for) with multiplicative pixel noise
            Xtrue = lb + dyadic(rng, 0.1, 0.9, 3, size=(nl, ns)) * (ub - lb)
            B = bp + (dyadic(rng, 0, 1, 4, size=(size, nl)) @ Xtrue @ Ap.T) * dyadic(rng, 0.75, 1.25, 4, size=(size, nf))
        c = dict(k=k, nf=nf, ns=ns, size=size, n_layers=nl, A=A, K=K, K_kind=kk, baseline=base, baseline_kind=bk, lb=lb, ub=ub, mask=mask, equal_l1=eq,
                 subsample=sub, subsample_in_effect=nfit / size, samples_fitted_in_the_loop=nfit, lbp=lbp, ubp=ubp, seed=seed, targets=tkind, via=via,
                 between_calls="nothing", large=True, B=B)
        cnts = ["large instance (> 4096 samples):layers=%d" % nl, "large instance:subsample:%r (%d of the samples in the loop)" % (sub, nfit),
                "large instance:targets:%s" % tkind, "large instance:via:%s" % via, "large instance:opacity bounds:[%s, %s]" % (lbp, ubp),
                "large instance:samples:%s" % ("4097-4100" if size <= 4100 else "4101-6000")]
        kw = dict(n_layers=nl, mask=mask, lbp=lbp, ubp=ubp, max_iter=15, seed=seed, equal_l1norm_constraint=eq, solver="CLARABEL")
        if sub != "omitted":
            kw["subsample"] = sub
        Bg = B.copy()
        drain()
        if via == "estimator":
            filt = np.hstack([np.zeros((nf, 1)), A, np.zeros((nf, 1))]); src = np.hstack([np.zeros((ns, 1)), np.eye(ns), np.zeros((ns, 1))])
            stE, est = call(dreye.ReceptorEstimator, filt, domain=1.0, K=(1.0 if K is None else K), baseline=base, sources=src, lb=lb, ub=ub)
            fit = (lambda kw, stE=stE, est=est: (stE, est)) if stE != "ok" else (lambda kw, est=est, Bg=Bg: call(est.fit_decomposition, Bg, **kw))
        else:
            fit = lambda kw, A=A, Bg=Bg, lb=lb, ub=ub, K=K, base=base: call(lsq_linear_decomposition, A, Bg, lb=lb, ub=ub, K=K, baseline=base, return_pred=True, **kw)
        st, out = fit(kw)
        ev = [e for e in drain() if e["event"] == "decomp_iter"]
        st2, out2 = fit(kw)
        drain()
        # The interior-point solver named by this harness can give up on a cone program of this size with a numerical error, which the
        # implementation passes on as an exception (loud; seen on the unchanged tree: NumericalError in a P-step with 1245 x 3 opacities).
        # The property speaks about what the decomposition RETURNS: such an instance decides nothing and is drawn again (at most twice);
        # the same request must fail the same way when repeated. Every other exception is judged as for the small cases.
        if (not LOUD_SOLVER_FAILURE_IS_VIOLATION) and (st == "other:SolverError" or (st == "runtime" and "did not converge" in str(out))):
            R.count("large instance:the named solver gave up loudly (%s), instance drawn again" % st)
            if st2 != st:
                R.failB(dict(c, first=str(out), again=(str(out2) if st2 != "ok" else "returned")), "the same request first raised %s, then %s when repeated" % (st, "returned a result" if st2 == "ok" else "raised " + st2), "C11:layers=%d:seed" % nl)
            continue
        fitted.add(li)
        for key in cnts:
            R.count(key)
        if attempt:
            c["drawn_again"] = attempt
        jobs.append(dict(c=c, st=st, out=out, ev=ev, st2=st2, out2=out2, Ap=Ap, bp=bp, large=True))
    rowsP = []
    for job in jobs:
        c = job["c"]
        if job["st"] != "ok":
            continue
        X, P, Bp = [np.asarray(o) for o in job["out"]]
        job["X"], job["P"], job["Bp"] = X, P, Bp
        Ap, bp = job["Ap"], job["bp"]
        Bprime = c["B"] - bp
        nl, ns, size = c["n_layers"], c["ns"], c["size"]
        if c["subsample_in_effect"]:
            # opacities were fitted last: per sample a bounded LS in p with C = A' X^T (nf x n_layers)
            Cmat = Ap @ X.T
            rows_judged = range(size)
            if job.get("large") and P.shape == (size, nl):
                # float screening of ALL rows (per row the best of the 3^layers active-set patterns) ranks the rows; exact judgement of the
                # 8 rows ranked worst and of 16 random other rows
                best = np.full(size, np.inf); xbest = np.clip(P, c["lbp"], c["ubp"])
                for pat in itertools.product([0, 1, 2], repeat=nl):
                    pat = np.array(pat); free = pat == 0
                    fixed = np.where(pat == 1, c["lbp"], c["ubp"])
                    r0 = Bprime - (Cmat[:, ~free] @ fixed[~free])[None]
                    xs = np.tile(fixed, (size, 1))
                    if free.any():
                        sol = np.linalg.lstsq(Cmat[:, free], r0.T, rcond=None)[0].T
                        okp = np.all((sol >= c["lbp"] - 1e-12) & (sol <= c["ubp"] + 1e-12), axis=1)
                        r0 = r0 - sol @ Cmat[:, free].T
                        xs[:, free] = sol
                    else:
                        okp = np.ones(size, dtype=bool)
                    f0 = np.sum(r0 ** 2, axis=1); f0[~okp] = np.inf
                    upd = f0 < best
                    best[upd] = f0[upd]; xbest[upd] = np.clip(xs[upd], c["lbp"], c["ubp"])
                job["xscreen"] = xbest
                excess = np.sqrt(np.sum((P @ Cmat.T - Bprime) ** 2, axis=1)) - np.sqrt(best)
                worst = [int(i) for i in np.argsort(-excess, kind="stable")[:8]]
                rest = [int(i) for i in R.rng(22, int(c["k"][1:])).permutation(size) if int(i) not in worst][:16]
                rows_judged = worst + rest
                job["screen"] = dict(rows_over_tolerance=int(np.sum(excess > 1e-3 * (float(np.max(np.abs(c["B"]))) + 1))), worst_excess=float(np.max(excess)))
                R.count("large instance:rows judged exactly", len(rows_judged)); R.count("large instance:rows screened in floating point", size)
                atb = np.mean((np.abs(P - c["lbp"]) < 1e-6) | (np.abs(P - c["ubp"]) < 1e-6))
                R.count("large instance:share of opacities at a bound:%s" % ("none" if atb == 0 else ("< 10%" if atb < 0.1 else ">= 10%")))
            for i in rows_judged:
                rowsP.append(dict(job=job, i=i, **({"xscreen": job["xscreen"][i]} if "xscreen" in job else {}), n=nl, K=None, A=Cmat, baseline=np.zeros(c["nf"]), w=np.ones(c["nf"]), b=Bprime[i], lb=np.ones(nl) * c["lbp"], ub=np.ones(nl) * c["ubp"], xhat=P[i]))
        else:
            # intensities were fitted last: || M vec(X) - r ||^2 with M[(i,c),(l,k)] = P_il A'_ck
            M = np.einsum("il,ck->iclk", P, Ap).reshape(size * c["nf"], nl * ns); r = Bprime.reshape(-1)
            mask = np.ones((nl, ns)) if c["mask"] is None else c["mask"]
            lbx = np.tile(c["lb"], nl); ubx = np.where(mask.reshape(-1) == 0, 0.0, np.tile(c["ub"], nl))
            G = []; 
            if nl > 1 and c["equal_l1"]:
                for l in range(nl - 1):
                    row = np.zeros(nl * ns); row[l * ns:(l + 1) * ns] = 1.0; row[(l + 1) * ns:(l + 2) * ns] = -1.0
                    G.append(row); G.append(-row)
            G = np.array(G).reshape(-1, nl * ns); h = np.zeros(len(G))
            x = np.clip(X.reshape(-1), lbx, ubx)
            g = 2 * M.T @ (M @ x - r)
            lam = lp_duals(g, G if len(G) else np.zeros((0, nl * ns)), h, lbx, ubx) if True else None
            job["xflat"] = x
            if lam is not None:
                R.driver.ask("x" + c["k"], "quadcert", nl * ns, ms(M), vs(r), vs(x), cert_args_text(G, h, [], [], 0, lam, [], 0, lbx, ubx))
                job["asked"] = True
    if rowsP:
        certify_rows(R, "c11", rowsP)
        # rows of a large instance whose exact optimum was not found from the active set of dreye's answer: second search from the
        # active set the floating-point screening found (only the exact optimum is taken over; the judged answer stays dreye's)
        again = [r for r in rowsP if not r["kkt_ok"] and "xscreen" in r]
        if again:
            rows2 = [dict({a: b for a, b in r.items() if a in ("n", "K", "A", "baseline", "w", "b", "lb", "ub")}, xhat=r["xscreen"]) for r in again]
            certify_rows(R, "c11r", rows2)
            for r, r2 in zip(again, rows2):
                if r2["kkt_ok"]:
                    r["kkt_ok"] = True; r["xstar"] = r2["xstar"]; r["fstar"] = r2["fstar"]
                    R.count("large instance:exact optimum found from the screening's active set")
    R.driver.run()
    for job in jobs:
        c = job["c"]; k = c["k"]
        nontriv = (k,) if ((c["n_layers"] >= 2 and c["equal_l1"]) or (c["mask"] is not None and np.any(c["mask"] == 0))) else None
        R.case(c, nontriv, sample=(nontriv is not None and not job.get("large")))
        sig = "C11:layers=%d" % c["n_layers"]
        if job["st"] != "ok":
            R.failB(dict(c, impl_error=job["out"]), "decomposition raised %s: %s" % (job["st"], job["out"]), sig + ":raises:" + job["st"]); continue
        X, P, Bp = job["X"], job["P"], job["Bp"]
        Ap, bp = job["Ap"], job["bp"]
        tol = 1e-5
        if np.any(X < c["lb"] - tol) or np.any(X > c["ub"] + tol):
            R.failB(dict(c, impl=X), "layer intensities violate the source bounds", sig + ":bounds")
        if c["mask"] is not None and np.any(np.abs(X[c["mask"] == 0]) > tol):
            R.failB(dict(c, impl=X), "a masked-out source has non-zero intensity %.3g" % float(np.max(np.abs(X[c["mask"] == 0]))), sig + ":mask")
        if c["n_layers"] > 1 and c["equal_l1"] and np.max(np.abs(np.diff(X.sum(1)))) > 1e-4:
            R.failB(dict(c, impl=X, layer_totals=X.sum(1)), "layer totals are not equal: %s" % X.sum(1).tolist(), sig + ":equal-l1")
        if np.any(P < c["lbp"] - tol) or np.any(P > c["ubp"] + tol):
            R.failB(dict(c, impl=P), "opacities outside their bounds", sig + ":opacity-bounds")
        if P.shape != (c["size"], c["n_layers"]) or np.max(np.abs(Bp - (P @ X @ Ap.T + bp))) > 1e-9 * (np.max(np.abs(Bp)) + 1):
            R.failB(dict(c, impl=[X, P, Bp]), "fitted capture is not the model's capture of opacities x intensities", sig + ":pred-mismatch")
        losses = [e["loss"] for e in job["ev"]]
        sc = (losses[0] if losses else 0.0) + float(np.max(np.abs(c["B"])))
        inc = [b - a for a, b in zip(losses, losses[1:])]
        if inc and max(inc) > 1e-4 * sc:
            R.failB(dict(c, losses=losses), "the fitting error increased during the alternating optimisation: %s" % losses, sig + ":not-descending")
        if job["st2"] != "ok" or any(not np.array_equal(np.asarray(a), np.asarray(b)) for a, b in zip(job["out"], job["out2"])):
            R.failB(dict(c), "the same seed gave a different result (between the two identical calls: %s)" % c["between_calls"], sig + ":seed")
        # the same request with the default solver: determinism over the history, and the constraints within the solver's accuracy
        if "scs" in job:
            h = job["scs"]; (sa, oa), (sb_, ob) = h["s1"], h["s2"]
            sigS = sig + ":default-solver"
            tolS = 2e-3
            if sa != "ok":
                R.failB(dict(c, impl_error=oa), "decomposition with the default solver raised %s: %s" % (sa, oa), sigS + ":raises:" + sa)
            else:
                XS, PS, BS = [np.asarray(o) for o in oa]
                if sb_ != "ok" or any(not np.array_equal(np.asarray(a), np.asarray(b)) for a, b in zip(oa, ob)):
                    R.failB(dict(c, first=[XS, PS], again=(ob if sb_ != "ok" else [np.asarray(ob[0]), np.asarray(ob[1])])),
                            "default solver: the same seed gave a different result when the identical call was repeated (in between: %s %s)" % (h["between"], h["between_options"] or ""), sigS + ":seed")
                if PS.shape != (c["size"], c["n_layers"]) or XS.shape != (c["n_layers"], c["ns"]) or np.max(np.abs(BS - (PS @ XS @ Ap.T + bp))) > 1e-9 * (np.max(np.abs(BS)) + 1):
                    R.failB(dict(c, impl=[XS, PS, BS]), "default solver: fitted capture is not the model's capture of opacities x intensities", sigS + ":pred-mismatch")
                elif np.any(XS < c["lb"] - tolS) or np.any(XS > c["ub"] + tolS):
                    R.failB(dict(c, impl=XS), "default solver: layer intensities violate the source bounds", sigS + ":bounds")
                elif c["mask"] is not None and np.any(np.abs(XS[c["mask"] == 0]) > tolS):
                    R.failB(dict(c, impl=XS), "default solver: a masked-out source has non-zero intensity %.3g" % float(np.max(np.abs(XS[c["mask"] == 0]))), sigS + ":mask")
                elif c["n_layers"] > 1 and c["equal_l1"] and np.max(np.abs(np.diff(XS.sum(1)))) > tolS:
                    R.failB(dict(c, impl=XS, layer_totals=XS.sum(1)), "default solver: layer totals are not equal: %s" % XS.sum(1).tolist(), sigS + ":equal-l1")
                elif np.any(PS < c["lbp"] - tolS) or np.any(PS > c["ubp"] + tolS):
                    R.failB(dict(c, impl=PS), "default solver: opacities outside their bounds", sigS + ":opacity-bounds")
        # last factor optimal
        if c["subsample_in_effect"]:
            for r_ in [r for r in rowsP if r["job"] is job]:
                ok = r_["kkt_ok"]
                if ok:
                    e_hat, e_star = fsqrt(r_["fhat"]), fsqrt(r_["fstar"])
                    if e_hat > e_star + 1e-3 * (float(np.max(np.abs(c["B"]))) + 1):
                        R.failB(dict(c, sample=r_["i"], opacities=r_["xhat"], error=e_hat, best=e_star),
                                "opacities of sample %d (fitted last) are not optimal given the intensities: error %.6g, optimum %.6g" % (r_["i"], e_hat, e_star), sig + ":last-factor-P")
                        break
                elif r_["gap"] is not None:
                    # exact optimum not found: Frank-Wolfe gap at the clipped answer bounds the optimum from below (theorem Dreye.Cert.gap_bound)
                    f_lb = r_["fclip"] - r_["gap"]
                    e_hat, e_lb = fsqrt(r_["fhat"]), fsqrt(f_lb if f_lb > 0 else 0)
                    if e_hat > e_lb + 1e-3 * (float(np.max(np.abs(c["B"]))) + 1):
                        R.failA(dict(c, sample=r_["i"], error=e_hat, lower_bound=e_lb), "optimal opacities could not be established (no exact KKT point; Frank-Wolfe lower bound %.6g vs error %.6g)" % (e_lb, e_hat))
                    else:
                        R.count("last-factor-P:certified-by-FW-gap")
                else:
                    R.failA(dict(c, sample=r_["i"]), "optimal opacities could not be established exactly")
        else:
            if not job.get("asked"):
                R.cert(False); R.failA(c, "no multipliers for the intensity certificate"); continue
            t = R.driver.get("x" + k)
            objv = t.rat(); tok = t.tok()
            delta = None if tok == "none" else float(parse_rat(tok))
            ok = delta is not None and delta <= 1e-3 * (float(objv) + float(np.sum(c["B"] ** 2)) * 1e-3 + 1e-9)
            R.cert(ok)
            if not ok:
                import cvxpy as cp
                nl, ns = c["n_layers"], c["ns"]
                Xv = cp.Variable((nl, ns))
                mask = np.ones((nl, ns)) if c["mask"] is None else c["mask"]
                cons = [Xv >= 0, Xv <= c["ub"][None] * mask]
                if nl > 1 and c["equal_l1"]:
                    cons.append(cp.diff(cp.sum(Xv, axis=1)) == 0)
                try:
                    pr = cp.Problem(cp.Minimize(cp.sum_squares(P @ Xv @ Ap.T - (c["B"] - bp))), cons); pr.solve(solver="CLARABEL"); better = pr.value
                except Exception:  # noqa: BLE001
                    better = None
                cur = float(objv)
                if better is not None and cur - better > 1e-2 * (cur + 1e-6):
                    R.failB(dict(c, impl=X, better=np.asarray(Xv.value), objective_impl=cur, objective_better=better),
                            "intensities (fitted last) are not optimal given the opacities: squared error %.6g, %.6g is attainable" % (cur, better), sig + ":last-factor-X")
                else:
                    R.failA(dict(c, delta=delta), "intensity optimum not certified (delta %s)" % delta)
