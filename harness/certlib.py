"""untrusted dual-multiplier hints for the verified checker `linLower` (Dreye/Cert/Box.lean), and protocol helpers"""
import numpy as np
from fractions import Fraction
from common import F, rs, vs, ms
from fitlib import ub_text


def fr_ceil_sqrt(q):
    """a rational sigma >= sqrt(q) (q a non-negative Fraction), tight to ~1e-15 relative"""
    if q <= 0:
        return Fraction(0)
    s = F(float(q) ** 0.5)
    s = s * (1 + Fraction(1, 2 ** 48))
    while s * s < q:
        s = s * (1 + Fraction(1, 2 ** 40))
    return s


def dual_hints(c, G, h, C, d, eps, lb, ub):
    """solve  min c.x  s.t.  G x <= h, ||C x - d||_2 <= eps, lb <= x <= ub  (cvxpy, CLARABEL) and return candidate
    multiplier sets [(lam, v, sigma)] (floats -> exact rationals).  Untrusted: only `linLower` decides."""
    import cvxpy as cp
    c = np.asarray(c, dtype=float); n = len(c)
    x = cp.Variable(n)
    cons = []
    lin = None
    if len(G):
        lin = (np.asarray(G, dtype=float) @ x <= np.asarray(h, dtype=float)); cons.append(lin)
    soc = None
    if len(C):
        soc = cp.SOC(cp.Constant(float(eps)), np.asarray(C, dtype=float) @ x - np.asarray(d, dtype=float)); cons.append(soc)
    cons.append(x >= np.asarray(lb, dtype=float))
    fin = np.isfinite(np.asarray(ub, dtype=float))
    if np.any(fin):
        cons.append(x[np.flatnonzero(fin)] <= np.asarray(ub, dtype=float)[fin])
    prob = cp.Problem(cp.Minimize(c @ x), cons)
    try:
        prob.solve(solver="CLARABEL", tol_gap_abs=1e-12, tol_gap_rel=1e-12, tol_feas=1e-12, max_iter=500)
    except Exception:  # noqa: BLE001
        try:
            prob.solve(solver="CLARABEL")
        except Exception:  # noqa: BLE001
            return []
    if prob.status not in ("optimal", "optimal_inaccurate"):
        return []
    lam = np.maximum(np.asarray(lin.dual_value, dtype=float), 0.0) if lin is not None else np.zeros(0)
    outs = []
    if soc is not None:
        dv = soc.dual_value
        vv = np.asarray(dv[1], dtype=float).ravel()
        for sgn in (1.0, -1.0):
            vF = [F(sgn * t) for t in vv]
            sig = fr_ceil_sqrt(sum(t * t for t in vF))
            outs.append(([F(t) for t in lam], vF, sig))
    else:
        outs.append(([F(t) for t in lam], [], Fraction(0)))
    return outs


def cert_args_text(G, h, C, d, eps, lam, v, sigma, lb, ub):
    n = len(lb)
    Gt = ms(G) if len(G) else "0 0"
    Ct = ms(C) if len(C) else "0 0"
    return " ".join([Gt, vs(h), Ct, vs(d), rs(eps), vs(lam), vs(v), rs(sigma), vs(lb), ub_text(np.asarray(ub, dtype=float))])
