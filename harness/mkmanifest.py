"""regenerates /verif/MANIFEST.json from the table below (run: python3 harness/mkmanifest.py)"""
import json
import os

VERIF = os.path.dirname(os.path.dirname(os.path.abspath(__file__)))

# property -> (technique, level text, level note, design section)
CHECKS = {
    "C01": (
        "Lean 4 proof (induction over lists, any field) + per-run model/code correspondence at exact rationals",
        "Theorems in lean/Dreye/Props/C01.lean prove, for lists of any length over any field, that the modelled capture "
        "entry (i,j) is the integral of signal i x filter j alone, that all three integration rules are additive and "
        "homogeneous (hence capture is linear in signals and in filters), and that a scalar step equals the explicit grid "
        "0,dx,2dx,...; every run re-checks the proofs' axioms and compares dreye.calculate_capture / integral / "
        "ReceptorEstimator.capture entry by entry with the exact-rational model on generated shapes and domains.",
        "Trusted: Lean kernel; the hand-written model of calculate_capture/integral (tied to the code only by the per-run "
        "correspondence on the generated cases); numpy broadcasting beyond the generated shapes; float rounding is not modelled "
        "(comparison tolerance 1e-12 x sum|terms|).",
        "5/C01"),
    "C02": (
        "Lean 4 proof (induction over sources, any field) + per-run model/code correspondence at exact rationals",
        "Theorems in lean/Dreye/Props/C02.lean prove for any number of receptors/sources/domain points that A x equals the "
        "capture of the mixed spectrum sum_k x_k source_k (from C01 linearity), that relative capture is K(Q+baseline) for "
        "scalar / per-receptor / matrix K, and that after K := 1/(Q_bg+baseline) the relative capture of the background is 1; "
        "C19Regrid.lean: the common grid of a domain equalisation has minimum lo, maximum hi and mean step (hi-lo)/k, so the second "
        "equalisation inside register_system (filters' domain against the common grid) returns the same grid (regrid_stable); "
        "every run compares a real ReceptorEstimator (A, system_capture, capture of the mixture, relative captures, K after "
        "both adaptation calls) with the exact model.",
        "Trusted: Lean kernel; hand-written model of register_system/_relative_capture/adaptation tied to the code by the "
        "per-run correspondence only; add=True with matrix K is not modelled; float rounding not modelled (rtol 1e-10).",
        "5/C02"),
    "C20": (
        "Lean 4 proof (field algebra with exact SI constants) + per-run model/code correspondence at exact rationals",
        "Theorems in lean/Dreye/Props/C20.lean prove that the modelled conversion is I*lambda*1e-9/(h c N_A) with the exact SI "
        "constants, that a prefix multiplies by the stated power of ten, that flux2irr and irr2flux are exact mutual inverses "
        "for every non-zero wavelength and prefix pair, that both are linear and act element-wise; every run compares "
        "dreye.irr2flux/flux2irr (scalars, 1-D, N-D with axis, prefixes, pint quantities, round trips, after a call with "
        "another prefix on the same grid) with the exact model.",
        "Trusted: Lean kernel; pint's registry is the engine (its constants are pinned numerically to the exact SI rationals at "
        "rtol 1e-12 by the correspondence); hand-written model tied to the code by the per-run correspondence only.",
        "5/C20"),
    "C19": (
        "Lean 4 proof (list induction, ordered fields; rounding at Q) + per-run model/code correspondence at exact rationals",
        "Theorems in lean/Dreye/Props/C19.lean prove: the per-domain step is (max-min)/(n-1) (telescoping), the new grid has k+1 "
        "points, starts exactly at lo, ends exactly at hi and is uniformly spaced, np.around picks an integer within 1/2 of "
        "overlap/step (ties to even), the interpolant is the fill value outside the knots, the convex combination of the "
        "neighbouring samples inside an interval, reproduces the samples at every knot of a strictly ascending domain, is "
        "linear in the array values; equal domains are returned unchanged and empty overlaps rejected. Every run compares "
        "dreye.equalize_domains (2-4 domains incl. unsorted/nested/disjoint, rank 1-4 arrays, any axis, stack/concatenate) "
        "and ReceptorEstimator.capture(signal, domain=...) with the exact model.",
        "Trusted: Lean kernel; scipy.interpolate.interp1d and np.linspace/np.around are modelled exactly and compared, not "
        "verified; near-ties of overlap/step at a half-integer accept either neighbour (float rounding is not modelled); "
        "hand-written model tied to the code by the per-run correspondence only.",
        "5/C19"),
    "C16": (
        "Lean 4 proof over the reals (induction on dimension; Real.arccos/cos/sin/sqrt) + per-run Float-model/code correspondence",
        "Theorems in lean/Dreye/Props/C16.lean prove over the reals, for every dimension >= 2 and every point (origin, axis "
        "points, negative coordinates included), that the modelled cartesian->n-sphere conversion returns the Euclidean norm "
        "as radius, polar angles in [0,pi] and the azimuth in [0,2pi], and that converting back recovers the point exactly; "
        "lean/Dreye/Props/C16Bary.lean proves the barycentric half (closed form of the vertex matrix, unit edges, affinity, "
        "injectivity on the plane, L1 sums, scale invariance of the chromatic reduction) and C16Round.lean the round trips: the "
        "Gauss-Jordan inverse is two-sided and complete, [T|1] is always inverted, reverse-then-forward and forward-then-reverse "
        "are identities in every dimension, centred or not, with or without L1. Every run executes the same model text at "
        "IEEE doubles and compares dreye's transformer matrix, both barycentric directions (centred, L1 none/scalar/per-row), "
        "chromatic reduction, both spherical directions with it, and evaluates the property predicates (unit edges, L1 sums, "
        "scale invariance, ranges, round trips) on dreye's output.",
        "Trusted: Lean kernel; libm (the theorems are about real numbers; the Float run of the model is trusted to ~1e-12 and "
        "arccos near +-1 is compared at 3e-8); np.linalg.inv is modelled by Gauss-Jordan (proved a two-sided inverse) and "
        "compared with numpy per run.",
        "5/C16"),
    "C05": (
        "Lean 4 proof (arithmetic induction on the batch plan; separability over Finset sums) + exhaustive (n, batch size) grid against the hooked code",
        "Theorems in lean/Dreye/Props/C05.lean prove for all n and all batch sizes >= 1 (dividing, not dividing, larger than n) "
        "that the rows written by the batched loop are exactly 0..n-1 in order, that every solve is written to a slice that "
        "fits (full batches bs rows, the padded batch n mod bs rows), that row i comes from block i mod bs of solve i div bs, "
        "and that a stacked problem whose objective is a sum over blocks over a product set is minimised iff every block "
        "minimises its own row problem. Every run compares, for the whole grid n x batch size x {gaussian, poisson, "
        "excitation, variance minimisation}, the hook-recorded (batch idx, padded, rows) sequence literally with the model's "
        "plan, every result with the batch-size-1 result, joint fits with row-by-row fits under per-sample weights, and "
        "permuted/duplicated/dropped/appended rows.",
        "Trusted: Lean kernel; cvxpy/solvers are engines (results compared between batch sizes at solver accuracy: 2e-4 "
        "gaussian/variance, 1e-2 poisson, 1e-4 excitation units); that the stacked cvxpy objective is the block sum is "
        "proved on lists in Props/ExtrasA.lean (stacked_objective_sum) for the model's stacking, and checked against cvxpy by the "
        "result comparison; hooks record the scatter.",
        "5/C05"),
    "C04": (
        "Lean 4 proof (problem construction = documented objective; exact KKT => global optimum, any size, any ordered field) + per-answer exact certificate",
        "Theorems in lean/Dreye/Props/C04.lean and Props/Cert.lean prove, for every size and every ordered field: the least-squares "
        "data built by the parameter preparation equals the weighted squared error of K(Ax+baseline) against the target for "
        "scalar/vector/matrix/absent K; the returned prediction is the model's capture of the returned intensities; a point "
        "accepted by the exact KKT checker minimises the documented error over ALL in-bound intensities; a Frank-Wolfe gap "
        "bounds the distance to the optimum; minimisers have a unique prediction; zero error iff the target is reproduced. "
        "On every run each row returned by lsq_linear / ReceptorEstimator.fit (default and high-accuracy settings, all K / "
        "baseline / weight / bound shapes, targets inside, on, outside the gamut and below the baseline) is compared with an "
        "exact optimum computed in Q and accepted only by the Lean checker.",
        "Trusted: Lean kernel; cvxpy and the solvers are engines (their answers are certificate-checked per row; only "
        "termination with some answer is assumed); the active-set guess is an untrusted hint; tolerances are the property's "
        "(2e-2 capture units / 1% of range default, 2e-3 / 1e-6 high accuracy); model tied to code by the per-run correspondence.",
        "5/C04"),
    "C03": (
        "Lean 4 proof (conv of the 2^n corner images = gamut, induction on the number of sources; certificate soundness) + exact per-target certificates",
        "Theorems in lean/Dreye/Props/C03.lean prove for every number of sources and any ordered field: every box point is the "
        "convex combination of the 2^n corners with product weights and every convex combination of corners lies in the box, "
        "the affine model commutes with convex combinations, hence a target is a convex combination of the corner images "
        "(what the code tests) iff some in-bound intensity vector reproduces it; a separating hyperplane for the corner images "
        "refutes reproducibility; offset subtraction does not change membership; C03Chroma.lean: the chromaticity of a target is in "
        "the hull of the corner chromaticities iff some positive multiple of the target is in the gamut hull (chromatic_mem_iff), "
        "independent of the target's intensity. Every run builds targets WITH exact "
        "certificates (product weights / supporting hyperplanes, verified in Q by the Lean checkers inHullCert and sepCert) for "
        "all configurations (finite/infinite ub, lb>0, flat gamuts, dichromats, K incl. signed matrices, baseline, normalised "
        "membership, membership after re-registration) and compares dreye's booleans with them.",
        "Trusted: Lean kernel; qhull (Delaunay.find_simplex) and the NNLS solver are engines whose answers are compared with "
        "verified certificates per target; near-boundary targets are placed at 1e-5 x extent (the property's margin is 1e-6); "
        "vertices are recorded, not asserted; the chromatic (normalised) clause asserts only the inside direction; hooks record "
        "the decision path.",
        "5/C03"),
    "C06": (
        "Lean 4 proof (soundness/attainment of the enumerated ends; LP weak duality for extremality) + exact model and per-instance dual certificates",
        "Theorems in lean/Dreye/Props/C06.lean prove for every size and ordered field: every accepted candidate is a genuine "
        "in-bound solution; if a candidate is accepted then for every source lb <= min <= max <= ub and both ends are attained "
        "by feasible solutions; multipliers accepted by the verified checker bound the j-th intensity of EVERY feasible solution "
        "(instances of lin_lower_sound); points of an affine line between two in-box parameters stay in the box (spaced "
        "solutions). Every run computes the exact ends with the model in Q, certifies them extremal with LP-dual multipliers "
        "(exactly tight), and compares dreye's (Xmin, Xmax, spaced solutions, raise / ignore / warn behaviour) for interior, "
        "black, white, saturated, half-source, face and outside targets, on exactly representable and on decimal data. "
        "C06Exact.lean proves the full-strength theorem range_exact: if every square system of the enumeration is uniquely solvable "
        "and the target is reproducible, the reported ends ARE the least and greatest intensities over all in-bound solutions "
        "(pivot lemma + induction on the number of free coordinates, any ordered field); Linalg.lean proves the Gauss-Jordan solve sound and complete.",
        "Trusted: Lean kernel; np.linalg.solve is modelled by exact Gauss-Jordan and compared, not verified; HiGHS only supplies "
        "untrusted dual hints; the in-gamut gate is C03's; float rounding is not modelled (decimal boundary targets are compared "
        "at 1e-6 of the range and may legitimately be rejected by the gate); hooks record candidate counts.",
        "5/C06"),
    "C17": (
        "Lean 4 proof (weak duality of the nearest-point programme; boundary hit; exact plane section by an explicit transport decomposition) + per-answer dual certificates and exact model",
        "Theorems in lean/Dreye/Props/C17.lean prove for every dimension, cloud size and ordered field: the Lagrange dual value "
        "bounds half the squared distance of EVERY hull point (so a point within delta of the dual value is nearest up to 2 delta); "
        "for a polytope with the origin strictly inside the returned multiple is positive, on a facet, inside for all smaller "
        "and outside for all larger multiples; every returned slice point is on the plane and on a segment of two cloud points; "
        "and every point of conv(P) on the plane is a convex combination of the all-pairs intersection points (slice exact). "
        "Every run evaluates the dual certificate exactly in Q on dreye.proj_B_to_hull's answers (multipliers from an auxiliary "
        "quadprog call), compares alpha_for_B_with_P / B_with_P and the all-pairs slice with the exact model, and checks the "
        "hull-edge branch of proj_P_to_simplex for soundness and completeness against the all-pairs points.",
        "Trusted: Lean kernel; quadprog and qhull are engines (quadprog's answers are certificate-checked; qhull's facet equations "
        "are taken as the definition of the polytope handed to dreye); the completeness check of the hull-edge branch is an LP "
        "feasibility test with tolerance 1e-8 on float outputs (predicate evaluation, not a proof).",
        "5/C17"),
    "C12": (
        "Lean 4 proof (common factor, maximum, totals, hue direction, contraction stays in a convex gamut) + exact model / predicate evaluation on dreye's output",
        "Theorems in lean/Dreye/Props/C12.lean prove: intensity scaling multiplies every light-induced part by one factor, keeps "
        "capture ratios, and makes the largest light-induced capture equal amax; chromatic scaling keeps totals, keeps the hue "
        "direction from the neutral point contracting saturation by alpha, is the identity for alpha = 1, and every smaller "
        "contraction of a point of a convex chromatic gamut (containing the neutral point) stays in it. Every run compares "
        "gamut_l1_scaling with the exact model and evaluates on gamut_dist_scaling's output: totals kept, one common positive "
        "alpha along the hue rays, all chromaticities inside the chromatic gamut and not all inside when pushed 1e-3 further, "
        "identity when already inside, zero rows, dichromats, explicit neutral points, relative and absolute capture.",
        "Trusted: Lean kernel; qhull (facets of the chromatic gamut) is the engine behind alpha: the boundary clause is checked "
        "by LP feasibility at 1e-6 (qhull's planes are accurate to ~1e-7), not proved; sklearn normalize and the barycentric map "
        "are those of C16; model tied to code by the per-run correspondence.",
        "5/C12"),
    "C18": (
        "Lean 4 proof (width invariances over any ordered field; divergence bounds over the reals) + Float-model correspondence on the same direction sample and closed-form families",
        "Theorems in lean/Dreye/Props/C18.lean prove: the width max+max(-) along any direction is translation invariant, "
        "homogeneous, non-negative, monotone under adding points and invariant under an isometry applied to direction and "
        "cloud; the same (exactly, per seed) for the mean over any fixed direction sample; ratio to itself 1 and to a superset "
        "<= 1; Jensen-Shannon divergence (model of the code, base 2, 0 log 0 = 0) is symmetric, invariant to rescaling either "
        "input, 0 for proportional inputs, >= 0 and <= 1 bit. Every run regenerates the direction sample from the seed and "
        "compares compute_mean_width (loop and vectorised, small and >300-point clouds) with the Float run of the model, checks "
        "the invariances on dreye's numbers, polygons against perimeter/pi at 5 sigma, volumes of boxes / simplices / polygons / "
        "flat clouds against closed forms, gamut ratios, the estimator's fractional gamut in (0,1], and the divergence against "
        "the Float model and the proved bounds.",
        "Trusted: Lean kernel; libm for the Float run; qhull's volume and sklearn's PCA are engines (closed-form families only); "
        "that the Monte-Carlo mean converges to the geometric mean width (Cauchy's formula) is NOT proved - polygons at 5 sigma "
        "are correspondence evidence only; numpy's default_rng is the source of directions.",
        "5/C18"),
    "C13": (
        "Lean 4 proof (samples are convex combinations of cloud points; mixture over null-overlapping pieces is proportional to volume) + predicates on dreye's samples",
        "Theorems in lean/Dreye/Props/C13.lean prove: barycentric weights applied to simplex vertices that are cloud points give a "
        "convex combination of the cloud (with C03: a capture reproducible by in-bound intensities); L1-normalised non-negative "
        "engine points and volume fractions are valid probability vectors; and (measure theory, ENNReal) choosing piece i with "
        "probability vol(S_i)/vol(U S) and a uniform point inside it lands in any measurable region A with probability "
        "vol(A n U S)/vol(U S) whenever the pieces overlap in null sets; C13Blocks.lean: for every list of per-simplex counts the "
        "row blocks written by the quasi-Monte-Carlo loop tile 0..n without gap or overlap and the simplex index of every row "
        "(np.repeat) is the block that wrote its weights. Every run compares the hook-recorded blocks, counts and simplex "
        "indices of every QMC call with that model, and checks on dreye's samples: exact count, "
        "inside every facet of an independently computed hull, identical arrays for identical seeds, l1 totals, chromatic "
        "membership for l1 samples, and for the default engine with n = 10^4 the sample mean against the exact centroid and "
        "half-space fractions against volume fractions at 6 sigma.",
        "Trusted: Lean kernel; that Delaunay simplices tile the hull with null overlaps, that Generator.choice realises the "
        "probabilities and that Dirichlet(1,..,1) weights are uniform on a simplex are engine facts (named hypotheses of the "
        "uniformity theorem); uniformity of the real sampler is statistical evidence (fixed seeds, 6 sigma), not proof; "
        "determinism per seed is checked by byte comparison; model/code correspondence exists for the QMC bookkeeping (hook) "
        "only - the default branch exposes no intermediate values and is covered by the predicates.",
        "5/C13"),
    "C14": (
        "Lean 4 proof (invariant by induction over registration histories of any length; refinement to a stateless reference) + step-by-step correspondence on exhaustive and random histories",
        "Theorems in lean/Dreye/Props/C14.lean prove about the model of the estimator's registration state machine: every "
        "registration call keeps the stored capture matrix equal to the capture of the currently registered sources (no stale "
        "cache) for histories of any length; in such a state every closed-form query is answered exactly as a stateless "
        "reference answers it from the registered values; hence two histories ending in the same registered values give "
        "identical answers; each call replaces its own value(s) and nothing else (register_bounds keeps the other bound, "
        "register_system resets the bounds, the adaptation calls read the current baseline, register_targets(B, W) replaces the "
        "targets AND the fitting weights - W, or the constructor's w when W is not given, never weights of an earlier call; "
        "fit() of the registered targets - modelled with the engine's fitted capture as a parameter - only overwrites the working "
        "copy, and register_targets after it restores exactly the state of registering alone: targets_after_fit). "
        "Queries carry no state in the model. "
        "Every run drives a real ReceptorEstimator through all histories up to a bounded length and random longer ones with "
        "interleaved query bundles, compares A, K, baseline, bounds, system/relative captures, in_system, registered targets and "
        "fitting weights and the working copy after EVERY step with "
        "the Lean state machine, compares engine-backed queries with a fresh twin at the end, and hashes caller arrays.",
        "Trusted: Lean kernel; engine-backed queries (gamut test, ranges, fits, sampling) are not in the Lean model - they are "
        "compared with a fresh twin estimator (metamorphic); add=True with a matrix K is not modelled (the harness avoids it); "
        "fit() of the registered targets is compared with the twin; aliasing is a runtime effect checked by hashing and by the "
        "frame condition of every routed call.",
        "5/C14"),
    "C07": (
        "Lean 4 proof (convexity/tangent bound of the Poisson objective over the reals; excitation identity and level infeasibility from LP multipliers) + exact per-answer certificates",
        "Theorems in lean/Dreye/Props/C07.lean prove: the code's quasi-convex term |b-p|/((1+b)(1+p)) equals |e(b)-e(p)| for "
        "e(q)=q/(1+q); 'excitation error <= t' is the pair of linear inequalities the model builds; accepted multipliers with a "
        "positive value show that NO in-bound intensity vector reaches level t; over the reals the Poisson objective lies above "
        "its tangent, hence obj(x) <= obj(y) + (g.x - min_box g.z) for EVERY in-bound y with the logarithm-free gradient g (for "
        "sources without upper bound the gap is evaluated at a nearby point and carried back: poisson_shifted_gap_bound), and "
        "the objective is minimal at prediction = target (Gibbs). Every run evaluates, exactly in Q at dreye's answers, the Poisson "
        "gap and the documented excitation objective, certifies level (objective - 2e-3) unreachable with LP multipliers through "
        "the verified checker, and checks bounds, prediction = model capture, and that gaussian / Poisson / excitation all "
        "reproduce in-gamut targets - after a call with another adaptation state on the same system.",
        "Trusted: Lean kernel; cvxpy/solvers (CLARABEL, SCS bisection) are engines, certificate-checked per row; HiGHS supplies "
        "untrusted multipliers; weights are exercised for Poisson only (the excitation objective's weight semantics are not "
        "stated by the property: W=None); tolerances: Poisson gap <= 2e-2 x scale, excitation level within 2e-3.",
        "5/C07"),
    "C08": (
        "Lean 4 proof (objective forms; weak duality over box + norm ball => certified optimality against every feasible point) + exact per-answer certificates",
        "Theorems in lean/Dreye/Props/C08.lean (with Props/Cert.lean) prove for every size and ordered field: every point of "
        "the feasible set reproduces the target within l2_eps and respects the bounds; the code's secondary objectives are the "
        "least-squares forms ||Mx-r||^2 (norm, variance via nI-J, total closest to a value, closest to a vector) or linear "
        "(smallest / largest total); accepted multipliers (box multipliers derived, one norm-ball multiplier with "
        "Cauchy-Schwarz in squared form) give goal(x) <= goal(y) + delta for EVERY feasible y. Every run evaluates, exactly in Q "
        "at dreye's answer for every option value and tolerance, the bounds, the reproduction error and that certificate "
        "(multipliers from an auxiliary CLARABEL solve); if no certificate is found an independent solve searches for a better "
        "feasible point before a violation is reported.",
        "Trusted: Lean kernel; cvxpy/solvers are engines (certificate-checked per row); the auxiliary solve only supplies "
        "untrusted multipliers; delta is accepted up to 1e-4 of the goal's scale and the reproduction error up to 5% of l2_eps "
        "(solver feasibility tolerance); the tuple form of underdetermined_opt is not exercised.",
        "5/C08"),
    "C09": (
        "Lean 4 proof (second-stage set, ordinary fit feasible, certified minimal variance incl. L1 window) + exact stage-1 optimum and per-answer certificates",
        "Theorems in lean/Dreye/Props/C09.lean (with C08/Cert) prove: every point of the second-stage set keeps the error within "
        "l2_eps + norm and respects bounds; the ordinary fit lies in that set when no L1 is requested; sum(eps x^2) is the "
        "diagonal quadratic sum_k e_k x_k^2 with e = column sums and the reported variances sum to it; variance propagates with "
        "K squared; accepted multipliers (with or without the two L1 rows) give var(x) <= var(y) + delta for EVERY y of the set, "
        "hence var(x) <= var(ordinary fit) + delta. Every run computes the attainable error exactly (Lean-verified KKT optimum "
        "of stage 1), and checks on dreye's answer: error <= best + l2_eps, L1 window, B_var = eps x^2 exactly for the default / "
        "explicit / uncertainty-derived variance model (all K shapes, incl. matrix K through the estimator), the minimal-"
        "variance certificate, and variance <= ordinary fit.",
        "Trusted: Lean kernel; cvxpy/solvers are engines (certificate-checked per row); stage-1 'norm' used for the certificate "
        "set is recomputed by the harness with the same call; delta accepted up to 1e-3 of the variance; batch sizes > 1 belong "
        "to C05.",
        "5/C09"),
    "C10": (
        "Lean 4 proof (constraint rows <=> the documented per-sample conditions; LP/QP weak duality => certified closest / largest feasible scale pair) + exact per-answer certificates",
        "Theorems in lean/Dreye/Props/C10.lean prove for any number of samples, sources and receptors: the rows the model builds "
        "are satisfied by (X, s0, s1) iff every sample's fitted total equals s0 x target total within delta_norm1 and its "
        "offset from the neutral direction equals s1 x target offset within delta_radius in every receptor; the 'unity' "
        "objective is (w0(s0-1))^2+(w1(s1-1))^2 and 'max' is -(w0 s0+w1 s1); accepted multipliers bound both objectives over "
        "EVERY feasible (Y, t0, t1); if intensities reproduce all targets then (X,1,1) is feasible with objective 0. Every run "
        "evaluates on dreye's (X, scales, B_pred): bounds, positive scales, both per-sample conditions, prediction = model "
        "capture, (1,1) for in-gamut sets, and the optimality certificate (multipliers from HiGHS on the same rows) through the "
        "verified checker; instances whose constraint set is empty (dreye raises) are recognised by an independent LP.",
        "Trusted: Lean kernel; cvxpy/CLARABEL is the engine (the default ECOS is not installed here - the solver is passed "
        "through the documented keyword); the certificate ranges over ALL feasible pairs (scales unbounded above; the untrusted "
        "float multipliers are repaired to exact dual feasibility before the verified checker sees them; a certificate restricted "
        "to scales <= 1e4 is only a counted fallback); emptiness of the constraint set is decided by an "
        "untrusted LP (it only suppresses a 'raises' report).",
        "5/C10"),
    "C11": (
        "Lean 4 proof (descent of alternating (near-)minimisation for any number of iterations; optimality of the factor fitted last from KKT / multipliers) + hook-recorded losses and exact certificates",
        "Theorems in lean/Dreye/Props/C11.lean prove, abstractly for any loss and any two blocks of variables: an iteration of two "
        "delta-optimal half-steps over sets containing the current iterate raises the loss by at most 2 delta, after k iterations "
        "by at most 2 k delta, and with exact half-steps the loss is non-increasing; opacities accepted by the exact KKT check "
        "are optimal against every opacity vector within bounds; intensities carry a certified gap over bounds + equal-total "
        "rows. Every run checks on dreye's (X, P, B_pred): source bounds, mask zeros, equal layer totals, opacity bounds, B_pred "
        "= P X A'^T + baseline, the hook-recorded loss sequence non-increasing, identical arrays for identical seeds, and the "
        "optimality certificate of whichever factor was fitted last (P per sample after subsampling, X otherwise).",
        "Trusted: Lean kernel; NMF initialisation (sklearn), cvxpy/solvers and the RNG are engines; determinism per seed is a "
        "runtime fact checked by byte comparison; the descent theorem applies to the real run only insofar as each half-step is "
        "near-optimal, which is what the recorded losses are checked against (slack 1e-4 x scale); the hook records the losses.",
        "5/C11"),
    "C15": (
        "Lean 4 proof (exact equivariance of the model: prediction, box, error, argmin, solution polytope) + twin-pair comparison of the implementation",
        "Theorems in lean/Dreye/Props/C15.lean prove for all s, c > 0, every size and ordered field: the twin system (s c A', c base') "
        "at intensities x/s predicts c times the capture; x is within bounds iff x/s is within the bounds/s; a target is "
        "reproducible iff c x target is reproducible in the twin; the weighted squared error scales by c^2; x minimises the "
        "bounded problem iff x/s minimises the twin; the solution polytopes correspond under x -> x/s (so ranges scale by "
        "exactly 1/s). Every run compares pairs (problem, twin) with power-of-two unit changes that keep both in the "
        "well-scaled regime (including weak broad sources with large bounds and changes up to x32): gamut membership, ranges, "
        "uniquely determined intensities, predictions and errors, default and high-accuracy solver, and the exact model's "
        "ranges on both twins; unit changes up to 2^+-13 are stress-explored and only recorded.",
        "Trusted: Lean kernel; the solvers' absolute tolerances are the runtime effect the model cannot exhibit: pairs are "
        "compared at twice the C04 tolerance in capture units, intensities at that tolerance times ||pinv(A)||; both twins "
        "raising the same error (singular column sub-matrix) counts as equivariant.",
        "5/C15"),
}

NOT_YET = "check not built yet in this round of work (planned in DESIGN.md section 5); no claim is made"


def main():
    props = [json.loads(l)["id"] for l in open(os.path.join(VERIF, "properties.jsonl"))]
    checks = []
    for pid in props:
        if pid not in CHECKS:
            continue
        tech, text, note, ref = CHECKS[pid]
        checks.append(dict(
            property_id=pid,
            quick_cmd="./check %s --tier quick" % pid,
            thorough_cmd="./check %s --tier thorough" % pid,
            evidence_file="evidence/%s.json" % pid,
            replay_cmd_template="./check %s --replay {path}" % pid,
            engine="lean4-dreye-model",
            level_claimed=dict(category="proof", text=text, design_ref="DESIGN.md section " + ref),
            level_note=note,
            technique=tech,
        ))
    man = dict(
        version=1,
        setup_cmd="cd lean && lake build",
        hooks=dict(
            guard="DREYE_VERIF",
            enable="checks import dreye from /repo's working tree in-process with DREYE_VERIF=1 (python, nothing to build)",
            baseline_off_cmd="cd /repo && env -u DREYE_VERIF /venv/bin/python -m pytest -ra -q -p no:cacheprovider --timeout=900 --continue-on-collection-errors",
            source_commits=HOOK_COMMITS,
            add_only=True,
        ),
        engines=[dict(
            name="lean4-dreye-model", path="lean/",
            serves_properties=[c["property_id"] for c in checks],
            kind_free_text="Lean 4.33 + Mathlib: hand-written scalar-polymorphic model (Dreye/Model), verified certificate "
                           "checkers (Dreye/Cert), property theorems (Dreye/Props), line-protocol driver (Driver.lean) run at Rat; "
                           "python correspondence harness in harness/")],
        checks=checks,
        notes="Entry point ./check <id>; env VERIF_SEED / VERIF_TIER honoured; exit 2 = infrastructure error/timeout. "
              "Known findings: KNOWN_FINDINGS.jsonl. See DESIGN.md.",
        not_applicable=[dict(property_id=p, reason=NOT_YET) for p in props if p not in CHECKS],
    )
    with open(os.path.join(VERIF, "MANIFEST.json"), "w") as f:
        json.dump(man, f, indent=1)
    print("MANIFEST.json: %d checks, %d not claimed" % (len(checks), len(man["not_applicable"])))


HOOK_COMMITS = ['2c6c02d', '4ac3a8f', '6f901f5', '010d0aa']

if __name__ == "__main__":
    main()
