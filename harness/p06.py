"""C06 — range of solutions is the exact per-source extent of the solution polytope."""
import warnings
import numpy as np
from fractions import Fraction
from common import F, rs, vs, ms, dyadic, close, call, as_given
from systems import gen_K, gen_baseline, apply_K
from fitlib import K_text
import exactqp


def drain():
    from dreye import _verif
    return _verif.drain()


def rep_name(x):
    """short description of the representation an argument was handed in (recorded with the case)"""
    if x is None or isinstance(x, (int, float)):
        return type(x).__name__
    if isinstance(x, list):
        flat = np.asarray(x, dtype=object).ravel().tolist()
        return "list[%s]" % ("int" if flat and all(isinstance(v, int) for v in flat) else "float")
    return "%s%s" % (x.dtype, "" if x.flags["C_CONTIGUOUS"] else (":F" if x.flags["F_CONTIGUOUS"] else ":strided"))


def give(rng, x, R, tag):
    """the same values as a caller may legitimately write them: as_given (integer dtype when whole, Fortran order, strided view,
    list) and, on top, a python list of ints for whole data, or a plain number when all entries of a vector are equal
    (documented for bounds and baseline: `ensure_value` accepts numbers)"""
    if x is None:
        return None
    y = as_given(rng, x, R, tag)
    u = rng.random()
    if isinstance(y, np.ndarray) and y.dtype.kind == "i" and u < 0.25:
        R.count("given:%s:+intlist" % tag)
        return y.tolist()
    if tag in ("lb", "ub", "baseline") and isinstance(y, np.ndarray) and y.ndim == 1 and np.all(y == y.flat[0]) and 0.25 <= u < 0.5:
        R.count("given:%s:+number" % tag)
        return y.flat[0].item()
    return y


def gen_system(rng, decimal=False, whole=False):
    nf = int(rng.integers(2, 5)); nd = int(rng.integers(1, 4)); ns = nf + nd
    for _ in range(200):
        A = rng.integers(0, 5, size=(nf, ns)).astype(float)
        for s in range(ns):
            A[(s * 3 + 1) % nf, s] += float(rng.integers(1, 4))
        if decimal:   # everyday decimal data: not exactly representable, so the solves round
            A = np.round(A / 1.7 + rng.uniform(0.05, 0.5, size=A.shape), 2)
        # every nf x nf column sub-matrix invertible (so that np.linalg.solve never raises)
        from itertools import combinations
        if all(abs(np.linalg.det(A[:, list(c)])) > 0.5 for c in combinations(range(ns), nf)):
            break
    kk, K = gen_K(rng, nf, kinds=("none", "scalar", "vector"))
    bk, base = gen_baseline(rng, nf)
    lbk = str(rng.choice(["zero", "pos"]))
    lb = np.zeros(ns) if lbk == "zero" else dyadic(rng, 0.125, 0.5, 3, size=ns)
    ub = lb + dyadic(rng, 1, 4, 2, size=ns)
    if decimal:
        ub = np.round(lb + rng.uniform(0.5, 3, size=ns), 1)
        kk, K, bk, base = "none", None, "zero", np.array([0.0])
    if whole:
        # whole-number data throughout (A is whole already): a caller may write such bounds / baseline / adaptation as integers.
        # The extents of the solution polytope are still fractional (basic solutions of integer systems are rationals).
        lb = np.zeros(ns) if lbk == "zero" else rng.integers(1, 3, size=ns).astype(float)
        if rng.random() < 0.3:
            ub = lb + float(rng.integers(2, 7))             # equal widths (a single number when lb is constant)
        else:
            ub = lb + rng.integers(2, 7, size=ns).astype(float)
        if K is not None:
            K = rng.integers(1, 4, size=K.shape).astype(float)
        if bk != "zero":
            base = rng.integers(0, 4, size=base.shape).astype(float)
    Ap, bp = apply_K(A, K, base)
    return dict(decimal=decimal, whole=whole, nf=nf, ns=ns, nd=nd, A=A, K=K, K_kind=kk, baseline=base, baseline_kind=bk, lb=lb, ub=ub, lb_kind=lbk, Ap=Ap, bp=bp)


def gen_x(rng, S, kind):
    lb, ub, ns = S["lb"], S["ub"], S["ns"]
    if kind == "inside":
        return lb + dyadic(rng, 0.25, 0.75, 3, size=ns) * (ub - lb)
    if kind == "black":
        return lb.copy()
    if kind == "white":
        return ub.copy()
    if kind == "one_saturated":
        x = lb.copy(); x[rng.integers(ns)] = ub[rng.integers(ns)] if False else 0; k = rng.integers(ns); x = lb.copy(); x[k] = ub[k]; return x
    if kind == "half_of_one":
        x = lb.copy(); k = rng.integers(ns); x[k] = (lb[k] + ub[k]) / 2; return x
    if kind == "face":
        x = lb + dyadic(rng, 0.25, 0.75, 3, size=ns) * (ub - lb)
        m = rng.random(ns) < 0.5
        m[rng.integers(ns)] = True
        return np.where(m, np.where(rng.random(ns) < 0.5, lb, ub), x)
    raise ValueError(kind)


def gen_outside_near(rng, S, dist=1.0):
    """a target OUTSIDE but near the gamut whose best fit lies in the relative interior of a facet (not at a vertex): a point of
    the facet with normal u (u orthogonal to nf-1 columns of A', generalised cross product; those sources strictly inside their
    bounds, every other source at the bound that maximises u.A'x) moved outwards along u by a distance in (0.5, 1]. It is outside
    because u.y <= u.p for every gamut point y; float rounding of u only tilts the direction."""
    Ap, bp, lb, ub, nf, ns = S["Ap"], S["bp"], S["lb"], S["ub"], S["nf"], S["ns"]
    free = sorted(rng.choice(ns, size=nf - 1, replace=False).tolist())
    M = Ap[:, free]
    u = np.array([(-1.0) ** i * (np.linalg.det(np.delete(M, i, axis=0)) if nf > 2 else float(M[1 - i, 0])) for i in range(nf)])
    if rng.random() < 0.5:
        u = -u
    u = u / 2.0 ** np.ceil(np.log2(np.linalg.norm(u)))            # |u| in (0.5, 1], scaling by a power of two is exact
    proj = u @ Ap
    x = np.where(proj > 0, ub, lb)
    x[free] = (lb + dyadic(rng, 0.25, 0.75, 3, size=ns) * (ub - lb))[free]
    return Ap @ x + bp + u * dist


def gen_outside_hair(rng, S):
    """a target that misses the gamut only by a hair: a point of its boundary (full white, or the relative interior of a facet as
    in gen_outside_near) moved outwards by rel * (scale of the captures), rel log-uniform in 1e-9 .. 1e-3 -- seven or more orders
    of magnitude above rounding, so in exact arithmetic no in-bound intensities reproduce it (the model confirms: no accepted
    basic solution). Such targets arise from intensities a hair above the calibrated maximum or captures that went through
    single precision. Returns (b, rel, where)."""
    Ap, bp, ub = S["Ap"], S["bp"], S["ub"]
    sc = float(np.max(np.abs(Ap) @ ub)) + 1.0
    rel = float(10.0 ** rng.uniform(-9, -3))
    if rng.random() < 0.4:
        # A' is non-negative with no zero row: u = (1..1)/2 is maximised over the gamut by full white
        return Ap @ ub + bp + rel * sc * 0.5 * np.ones(S["nf"]), rel, "white"
    return gen_outside_near(rng, S, dist=rel * sc), rel, "facet"


def judge_best_fit(R, pub, ApF, bprime, lbF, ubF, lo, hi, out_i, sig, where="", also=None):
    """property clause: told to ignore or warn, an out-of-gamut target gets the best fit as both ends (both ends equal; the error
    of the fit is not larger, beyond the existing tolerance, than that of an exhibited IN-BOUND point: the exact least-squares
    solution on the answer's active set when it lies within the bounds (an active-set solution outside the bounds is no witness),
    or `also`: another in-bound point, e.g. the answer of the single call for the same target, clipped to the bounds)"""
    if not np.all(np.isfinite(lo)) or not np.array_equal(lo, hi):
        R.failB(dict(pub, impl=out_i), "ignore/warn%s did not return the best fit as both ends" % where, sig + ":ends-differ")
        return
    wit = []
    for tau in (1e-4, 1e-3, 1e-2):
        xs = exactqp.candidate_optimum(ApF, bprime, lbF, ubF, lo, tau)
        if xs is not None and all(l <= v <= u for v, l, u in zip(xs, lbF, ubF)):
            wit.append(xs); break
    if also is not None and np.all(np.isfinite(also)):
        wit.append([min(max(F(float(v)), l), u) for v, l, u in zip(also, lbF, ubF)])
    R.count("best-fit%s:in-bound witnesses=%d" % (where and ":batch-row", len(wit)))
    fi = exactqp.obj(ApF, bprime, [F(float(v)) for v in lo])
    for xs in wit:
        fo = exactqp.obj(ApF, bprime, xs)
        if float(fi) ** 0.5 > float(fo) ** 0.5 + 2e-2:
            R.failB(dict(pub, impl=out_i, better_in_bound_fit=[float(v) for v in xs]), "ignore/warn%s returned a fit with error %.6g, a better in-bound fit has %.6g" % (where, float(fi) ** 0.5, float(fo) ** 0.5), sig + ":not-best-fit")
            return


def judge_spaced(R, pub, S, Xs, bprime, sig, where=""):
    """property clause: every spaced solution returned on request lies within the bounds and reproduces the target.
    A non-finite entry (NaN / inf) is neither within the bounds nor a reproduction of the target: comparisons with NaN are all
    False, so finiteness is asked first and explicitly."""
    ns = S["ns"]; rngw = S["ub"] - S["lb"]
    try:
        Xs = np.asarray(Xs, dtype=float)
    except (TypeError, ValueError):
        R.failB(dict(pub, spaced=repr(Xs)[:300]), "spaced solutions%s are not a numeric array" % where, sig + ":spaced-shape"); return
    if Xs.ndim != 2 or Xs.shape[1] != ns:
        R.failB(dict(pub, impl=Xs), "spaced solutions%s have shape %s" % (where, Xs.shape,), sig + ":spaced-shape"); return
    R.count("spaced%s:rows:%s" % (where, "0" if Xs.shape[0] == 0 else ("n" if Xs.shape[0] == pub.get("n_spaced") else "other")))
    if not Xs.shape[0]:
        return
    if not np.all(np.isfinite(Xs)):
        R.failB(dict(pub, spaced=[[repr(float(v)) for v in r] for r in Xs[:12]]),
                "spaced solutions%s contain non-finite entries (%d of %d rows): neither within the bounds nor reproducing the target" % (where, int(np.sum(~np.isfinite(Xs).all(axis=1))), Xs.shape[0]),
                sig + ":spaced-not-finite:nd=%d" % S["nd"])
        return
    bvec = np.array([float(v) for v in bprime]); sc = float(np.max(np.abs(S["Ap"]) @ S["ub"])) + 1.0
    resid = np.abs(Xs @ S["Ap"].T - bvec).max()
    viol = max(float(np.max(S["lb"] - Xs)), float(np.max(Xs - S["ub"])))
    if not resid <= 1e-7 * sc:
        R.failB(dict(pub, spaced=Xs), "spaced solutions%s do not reproduce the target (max residual %.3g)" % (where, resid), sig + ":spaced-residual:nd=%d" % S["nd"])
    if not viol <= 1e-7 * float(np.max(rngw)):
        R.failB(dict(pub, spaced=Xs), "spaced solutions%s leave the bounds by %.3g" % (where, viol), sig + ":spaced-bounds:nd=%d" % S["nd"])


def dual_hint(Ap, bprime, lbF, ubF, j, upper):
    """untrusted: multipliers (lam+ ; lam-) for the LP  min/max x_j  s.t. A x = b, box; exact from the optimal basis if possible"""
    from scipy.optimize import linprog
    m, n = len(Ap), len(lbF)
    c = np.zeros(n); c[j] = -1.0 if upper else 1.0
    Af = np.array([[float(v) for v in r] for r in Ap]); bf = np.array([float(v) for v in bprime])
    res = linprog(c, A_eq=Af, b_eq=bf, bounds=list(zip([float(v) for v in lbF], [float(v) for v in ubF])), method="highs")
    if res.status != 0:
        return None
    x = res.x
    tol = 1e-7
    basic = [k for k in range(n) if x[k] - float(lbF[k]) > tol * (float(ubF[k] - lbF[k])) and float(ubF[k]) - x[k] > tol * (float(ubF[k] - lbF[k]))]
    y = None
    if len(basic) <= m:
        # complete the basis greedily with independent columns
        cols = basic[:]
        others = [k for k in range(n) if k not in cols]
        while len(cols) < m and others:
            k = others.pop(0)
            keep = exactqp.independent_columns([[Ap[i][q] for i in range(m)] for q in cols + [k]])
            if len(keep) == len(cols) + 1:
                cols.append(k)
        if len(cols) == m:
            AB_T = [[Ap[i][q] for i in range(m)] for q in cols]   # rows: columns of A  (A_B^T)
            cB = [F(c[q]) for q in cols]
            y = exactqp.solve_exact(AB_T, cB)
    ys = ([y] if y is not None else []) + [[F(v) for v in res.eqlin.marginals]]
    # a cleaned float dual: snap to multiples of 2^-30 (often exact for small-integer systems)
    ys.append([Fraction(int(round(float(v) * 2 ** 30)), 2 ** 30) for v in res.eqlin.marginals])
    out = []
    for yy in ys:
        # r = c + A^T lam+ - A^T lam-  with  y = lam- - lam+
        lam_plus = [(-v if v < 0 else F(0)) for v in yy]
        lam_minus = [(v if v > 0 else F(0)) for v in yy]
        out.append(lam_plus + lam_minus)
    return out


def run(R):
    import dreye
    from dreye.api.convex import range_of_solutions
    nsys = 14 if R.tier == "quick" else 300
    R.rule = ("under-determined systems 2-4 receptors + 1-3 surplus sources, small-integer A (boundary targets exactly "
              "representable), lb zero/positive, finite ub, K none/scalar/vector, baseline; targets strictly inside, black, "
              "white, one saturated source, half of one source, faces, far outside, outside within distance 1 of a facet (best fit inside the facet), and outside by a hair "
              "(beyond full white or beyond a facet by 1e-9..1e-3 of the capture scale: must raise / give the best fit like any out-of-gamut target); the out-of-gamut "
              "targets of a system are also asked as one 2-d batch mixed with strictly-inside rows in random order under error='ignore'/'warn', half with n given "
              "(each out-of-gamut row must get its own best fit as both ends and as its only solution, each inside row its exact extent); spaced solutions n in 2..10. One third of the systems "
              "has whole-number data throughout (bounds, baseline, K) and every argument reaches dreye in a randomly chosen legitimate "
              "representation (integer dtype / list of ints when whole, a plain number for constant bounds, Fortran order, strided view, "
              "list; the model receives the values); the in-gamut targets of a system are also asked as one 2-d batch, half of the batches with "
              "spaced solutions (n in 2..4) for every row. Spaced solutions (single calls and batch rows) must be finite, within the bounds "
              "and reproduce the target (a NaN entry is a failure: it is neither in bounds nor a reproduction). The exact model "
              "(enumeration of basic solutions in Q) is compared with dreye's ends; the model's ends are certified extremal by "
              "LP-dual multipliers checked by the verified linLower (theorems lower/upper_end_of_cert) and attained (range_ends). "
              "Non-trivial: at least two accepted candidates or a boundary target.")
    kinds = ["inside", "inside", "black", "white", "one_saturated", "half_of_one", "face", "outside", "outside_near", "outside_hair"]
    jobs = []
    for si in range(nsys):
        k = "s%d" % si
        if not R.want(k):
            continue
        rng = R.rng(1, si)
        S = gen_system(rng, decimal=(si % 3 == 2), whole=(si % 3 == 1))
        nf, ns = S["nf"], S["ns"]
        lbF = [F(v) for v in S["lb"]]; ubF = [F(v) for v in S["ub"]]
        ApF = [[F(v) for v in r] for r in S["Ap"]]; bpF = [F(v) for v in S["bp"]]
        nsp = int(rng.integers(2, 11))
        for ti, kind in enumerate(kinds):
            if kind == "outside":
                x = gen_x(rng, S, "inside")
                b = S["Ap"] @ x + S["bp"]
                b[rng.integers(nf)] += float(np.sum(np.abs(S["Ap"]) * (S["ub"] - S["lb"])))   # beyond the extent
            elif kind == "outside_near":
                b = gen_outside_near(R.rng(4, si), S)
            elif kind == "outside_hair":
                b, hair_rel, hair_where = gen_outside_hair(R.rng(6, si), S)
                R.count("outside_hair:%s:1e%d" % (hair_where, int(np.floor(np.log10(hair_rel)))))
            else:
                x = gen_x(rng, S, kind)
                b = S["Ap"] @ x + S["bp"]
            bprime = [F(v) - b0 for v, b0 in zip(b, bpF)]
            if S["decimal"] and not kind.startswith("outside"):
                # the model works on the exact target A x (not representable); dreye gets its float rounding
                bprime = [sum(a * F(xv) for a, xv in zip(row, x)) for row in ApF]
                b = np.array([float(v + b0) for v, b0 in zip(bprime, bpF)])
            c = dict(k="%s_%d" % (k, ti), kind=kind, decimal=S["decimal"], whole=S["whole"], nf=nf, ns=ns, A=S["A"], K=S["K"], K_kind=S["K_kind"], baseline=S["baseline"],
                     lb=S["lb"], ub=S["ub"], b=b, n_spaced=nsp)
            if kind == "outside_hair":
                c["outside_by_relative"] = hair_rel; c["outside_beyond"] = hair_where
            if not R.want(c["k"]) and not R.want(k):
                continue
            # representation of the arguments (implementation side only; the model gets the values): own random stream per case
            rr = R.rng(2, si, ti)
            g = dict(b=give(rr, b.copy(), R, "b"), A=give(rr, S["A"], R, "A"), lb=give(rr, S["lb"], R, "lb"), ub=give(rr, S["ub"], R, "ub"),
                     K=give(rr, S["K"], R, "K"), baseline=give(rr, S["baseline"], R, "baseline"))
            c["given"] = {a: rep_name(v) for a, v in g.items()}
            if any("int" in v for a, v in c["given"].items() if a in ("lb", "ub")):
                R.count("bounds-written-as-integers")
            drain()
            with warnings.catch_warnings():
                warnings.simplefilter("ignore")
                via_est = bool(rr.integers(4) == 0)
                R.count("via:" + ("estimator" if via_est else "function"))
                if via_est:
                    # the same system registered in a ReceptorEstimator: filters [0 | A | 0] and unit sources on a unit-step domain
                    # give the capture matrix A exactly (trapezoid with zero end points = plain sum of exact products)
                    import dreye
                    A_ = np.asarray(S["A"], dtype=float); nf_, ns_ = A_.shape
                    filt = np.hstack([np.zeros((nf_, 1)), A_, np.zeros((nf_, 1))]); src = np.hstack([np.zeros((ns_, 1)), np.eye(ns_), np.zeros((ns_, 1))])
                    est = dreye.ReceptorEstimator(filt, domain=1.0, K=(1.0 if S["K"] is None else g["K"]), baseline=g["baseline"], sources=src, lb=g["lb"], ub=g["ub"])
                    if not np.array_equal(np.asarray(est.A, dtype=float), A_):
                        R.failA(dict(c), "harness: the estimator's capture matrix is not the intended A")
                    st, out = call(est.range_of_solutions, g["b"], error="raise", n=nsp)
                else:
                    st, out = call(range_of_solutions, g["b"], g["A"], g["lb"], g["ub"], K=g["K"], baseline=g["baseline"], error="raise", n=nsp)
                st_i, out_i = (None, None)
                if kind.startswith("outside"):
                    if via_est:
                        st_i, out_i = call(est.range_of_solutions, g["b"], error=str(rng.choice(["ignore", "warn"])))
                    else:
                        st_i, out_i = call(range_of_solutions, g["b"], g["A"], g["lb"], g["ub"], K=g["K"], baseline=g["baseline"], error=str(rng.choice(["ignore", "warn"])))
            ev = [e for e in drain() if e["event"] == "range_candidates"]
            R.driver.ask("r" + c["k"], "range", ns, ms(ApF), vs(bprime), vs(lbF), vs(ubF))
            jobs.append((c, S, kind, x if not kind.startswith("outside") else None, bprime, ApF, lbF, ubF, st, out, st_i, out_i, ev))
            for key in ("kind", "K_kind"):
                R.count("%s:%s" % (key, c[key]))
            R.count("data:%s" % ("decimal" if S["decimal"] else ("whole" if S["whole"] else "exact")))
        # the same in-gamut targets handed in as ONE two-dimensional batch (rows = targets): each row is the same question
        sysjobs = [j for j in jobs if j[1] is S and not j[2].startswith("outside") and j[8] == "ok"]
        if len(sysjobs) >= 2:
            rr = R.rng(2, si, 99)
            Bm = np.array([j[0]["b"] for j in sysjobs])
            # half of the batches also request spaced solutions (a few per row: n in 2..4, the single calls cover n up to 10):
            # the third return value is then one array of solutions per row (own random stream: the rest of the run is unchanged)
            nb_sp = int(R.rng(5, si).integers(2, 5)) if R.rng(5, si, 1).random() < 0.5 else None
            nkw = {} if nb_sp is None else dict(n=nb_sp)
            R.count("batch-call:spaced:%s" % ("none" if nb_sp is None else "n=%d" % nb_sp))
            with warnings.catch_warnings():
                warnings.simplefilter("ignore")
                stb, outb = call(range_of_solutions, give(rr, Bm, R, "B"), give(rr, S["A"], R, "A"), give(rr, S["lb"], R, "lb"), give(rr, S["ub"], R, "ub"),
                                 K=give(rr, S["K"], R, "K"), baseline=give(rr, S["baseline"], R, "baseline"), error="raise", **nkw)
            drain()
            R.count("batch-call:rows=%d" % len(sysjobs))
            if stb == "value_error" and "outside the convex" in str(outb) and any(j[2] != "inside" for j in sysjobs):
                # the batch contains targets ON the boundary of the gamut: the gate decides only strictly inside / strictly outside
                # (C03), and qhull's point location may answer differently for a boundary point inside a batch (it walks from the
                # previously located simplex). Not asserted; the batch is asked again with the strictly-inside rows only.
                R.count("batch-with-boundary-rows-rejected-by-gate")
                sysjobs = [j for j in sysjobs if j[2] == "inside"]
                if len(sysjobs) >= 2:
                    Bm = np.array([j[0]["b"] for j in sysjobs])
                    with warnings.catch_warnings():
                        warnings.simplefilter("ignore")
                        stb, outb = call(range_of_solutions, give(rr, Bm, R, "B"), give(rr, S["A"], R, "A"), give(rr, S["lb"], R, "lb"), give(rr, S["ub"], R, "ub"),
                                         K=give(rr, S["K"], R, "K"), baseline=give(rr, S["baseline"], R, "baseline"), error="raise", **nkw)
                    drain()
                else:
                    sysjobs = []
            for r_, j in enumerate(sysjobs):
                j[0]["_batch"] = (stb, (np.asarray(outb[0])[r_], np.asarray(outb[1])[r_]) if stb == "ok" else outb)
                if stb == "ok" and nb_sp is not None:
                    try:
                        j[0]["_batch_spaced"] = outb[2][r_]
                    except Exception as e:  # noqa: BLE001  (judged as a shape failure)
                        j[0]["_batch_spaced"] = "no spaced solutions for row %d of the batch: %r" % (r_, e)
                    j[0]["_batch_n"] = nb_sp
        # out-of-gamut targets and strictly-inside targets of the system as ONE 2-d batch, told to ignore / warn: every out-of-gamut
        # row gets ITS best fit as both ends, every inside row its exact extent; rows in random order; half of the batches with n
        outjobs = [j for j in jobs if j[1] is S and j[2].startswith("outside")]
        injobs = [j for j in jobs if j[1] is S and j[2] == "inside" and j[8] == "ok"]
        if len(outjobs) >= 2 and R.want(k):
            rr = R.rng(7, si)
            rows = outjobs + injobs[:int(rr.integers(0, 3))]
            rows = [rows[i] for i in rr.permutation(len(rows))]
            Bm = np.array([j[0]["b"] for j in rows])
            n_ob = None if rr.random() < 0.5 else int(rr.integers(2, 5))
            err = str(rr.choice(["ignore", "warn"]))
            R.count("mixed-batch:rows=%d:outside=%d:n=%s" % (len(rows), len(outjobs), "none" if n_ob is None else "given"))
            with warnings.catch_warnings():
                warnings.simplefilter("ignore")
                stb, outb = call(range_of_solutions, give(rr, Bm, R, "B"), give(rr, S["A"], R, "A"), give(rr, S["lb"], R, "lb"), give(rr, S["ub"], R, "ub"),
                                 K=give(rr, S["K"], R, "K"), baseline=give(rr, S["baseline"], R, "baseline"), error=err, **({} if n_ob is None else dict(n=n_ob)))
            drain()
            for r_, j in enumerate(rows):
                ob = dict(st=stb, out=outb if stb != "ok" else None, n=n_ob, error=err, row=r_, sys=k, B=Bm)
                if stb == "ok":
                    try:
                        ob["lo"] = np.asarray(outb[0], dtype=float)[r_]; ob["hi"] = np.asarray(outb[1], dtype=float)[r_]
                        ob["spaced"] = outb[2][r_] if n_ob is not None else None
                    except Exception as e:  # noqa: BLE001  (judged as a failure of the batch call)
                        ob["st"] = "bad-shape"; ob["out"] = "result of the batch call cannot be read row-wise: %r" % (e,)
                j[0]["_obatch"] = ob
    R.driver.run()
    second = []
    for job in jobs:
        c, S, kind, x, bprime, ApF, lbF, ubF, st, out, st_i, out_i, ev = job
        t = R.driver.get("r" + c["k"])
        tag = t.tok()
        if tag != "ok":
            c["_model"] = None
            continue
        mins = t.vec(); maxs = t.vec(); nc = t.nat(); na = t.nat()
        c["_model"] = (mins, maxs, nc, na)
        c["_certify"] = na > 0 and kind in ("inside", "half_of_one", "face") and (R.tier == "thorough" or c["k"].endswith(("_0", "_5")))
        if c["_certify"]:
            for j in range(S["ns"]):
                for up in (False, True):
                    lams = dual_hint(ApF, bprime, lbF, ubF, j, up) or []
                    c.setdefault("_nl", {})[(j, up)] = len(lams)
                    for li, lam in enumerate(lams):
                        R.driver.ask("e%s_%d_%d_%d" % (c["k"], j, int(up), li), "endcert", S["ns"], j, int(up), ms(ApF), vs(bprime), vs(lbF), vs(ubF), vs(lam))
    R.driver.run()
    for job in jobs:
        c, S, kind, x, bprime, ApF, lbF, ubF, st, out, st_i, out_i, ev = job
        pub = {a: b_ for a, b_ in c.items() if not a.startswith("_")}
        ns = S["ns"]; rngw = S["ub"] - S["lb"]
        sig = "C06:%s%s" % (kind, ":decimal" if S["decimal"] else "")
        model = c["_model"]
        nontriv = None
        if model is None:
            R.case(pub, None); R.failA(pub, "model: a square system of the enumeration is singular (generator should have excluded this)"); continue
        mins, maxs, nc, na = model
        if kind.startswith("outside"):
            R.case(pub, None)
            if na > 0:
                R.failA(pub, "generator: a target constructed outside the gamut is reproduced by an in-bound basic solution of the exact model"); continue
            if st == "ok":
                R.failB(dict(pub, impl=out), "an out-of-gamut target did not raise with error='raise'", sig + ":no-raise")
            elif st != "value_error":
                R.failB(dict(pub, impl_error=out), "out-of-gamut target raised %s instead of ValueError: %s" % (st, out), sig + ":wrong-error")
            if st_i != "ok":
                R.failB(dict(pub, impl_error=out_i), "error='ignore'/'warn' raised: %s" % (out_i,), sig + ":ignore-raises")
            else:
                judge_best_fit(R, pub, ApF, bprime, lbF, ubF, np.asarray(out_i[0]), np.asarray(out_i[1]), out_i, sig)
            if "_obatch" in c:
                # the same target as one row of a 2-d batch that mixes out-of-gamut and strictly-inside targets (error='ignore'/'warn')
                ob = c["_obatch"]; pubb = dict(pub, k=ob["sys"], batch=ob["B"], batch_row=ob["row"], batch_error=ob["error"], batch_n=ob["n"])
                if ob["st"] != "ok":
                    R.failB(dict(pubb, impl_error=ob["out"]), "a batch with out-of-gamut rows raised with error=%r: %s" % (ob["error"], ob["out"]), sig + ":batch-ignore-raises")
                else:
                    judge_best_fit(R, pubb, ApF, bprime, lbF, ubF, ob["lo"], ob["hi"], [ob["lo"], ob["hi"]], sig + ":batch", where=" (row %d of a mixed batch)" % ob["row"],
                                   also=(np.asarray(out_i[0], dtype=float) if st_i == "ok" else None))
                    if ob["n"] is not None:
                        # documented: with n given an out-of-gamut row gets its best fit as the only 'spaced' solution
                        try:
                            sp = np.asarray(ob["spaced"], dtype=float)
                            oksp = sp.ndim == 2 and sp.shape[1] == ns and sp.shape[0] >= 1 and all(np.array_equal(r_, ob["lo"]) for r_ in sp)
                        except (TypeError, ValueError):
                            oksp = False
                        if not oksp:
                            R.failB(dict(pubb, spaced=repr(ob["spaced"])[:300], impl=[ob["lo"], ob["hi"]]), "mixed batch: the solutions returned for an out-of-gamut row are not its best fit", sig + ":batch:spaced-not-best-fit")
            continue
        # in-gamut target
        boundary = kind != "inside"
        if na >= 2 or boundary:
            nontriv = (c["k"],)
        R.case(pub, nontriv, sample=(kind in ("inside", "half_of_one") and na >= 2))
        if na == 0:
            R.failA(pub, "model accepted no candidate for an in-gamut target"); continue
        # extremality certificates of the model's ends
        for j in (range(ns) if c["_certify"] else []):
            for up in (False, True):
                okc = False
                for li in range(c.get("_nl", {}).get((j, up), 0)):
                    t = R.driver.get("e%s_%d_%d_%d" % (c["k"], j, int(up), li))
                    if t is None:
                        continue
                    tok = t.tok()
                    if tok != "none" and tok != "ERR":
                        from common import parse_rat
                        v = parse_rat(tok)
                        end = maxs[j] if up else mins[j]
                        if abs(v - end) <= Fraction(1, 10 ** 9) * F(rngw[j]) and ((v >= end) if up else (v <= end)):
                            okc = True
                R.cert(okc)
                if not okc:
                    R.failA(dict(pub, source=j, end="max" if up else "min"), "no dual certificate proves the model's %s of source %d extremal" % ("max" if up else "min", j))
        if st == "value_error" and boundary and "outside the convex" in str(out):
            # a target ON the boundary: the gamut gate (C03: only strictly inside / strictly outside are decided) may reject it
            R.count("boundary-rejected-by-gate")
            continue
        if st == "value_error" and S["decimal"] and boundary:
            # a boundary target rounded to floating point may lie 1 ulp outside the gamut: rejecting it is legitimate
            R.count("decimal-boundary-rejected-by-gate")
            continue
        if st != "ok":
            R.failB(dict(pub, impl_error=out), "in-gamut target (%s) raised %s: %s" % (kind, st, out), sig + ":raises:" + st)
            continue
        Xmin, Xmax, Xs = np.asarray(out[0]), np.asarray(out[1]), np.asarray(out[2])
        RT = 1e-6 if S["decimal"] else 1e-9      # decimal data: the target itself is rounded
        tol = RT * rngw
        if np.any(Xmin > Xmax + tol):
            R.failB(dict(pub, impl=[Xmin, Xmax], model=[mins, maxs], candidates=ev), "min > max for an in-gamut target: min=%s max=%s (exact: min=%s max=%s)" % (Xmin.tolist(), Xmax.tolist(), [float(v) for v in mins], [float(v) for v in maxs]), sig + ":min-gt-max")
            continue
        if np.any(Xmin < S["lb"] - tol) or np.any(Xmax > S["ub"] + tol):
            R.failB(dict(pub, impl=[Xmin, Xmax]), "reported ends outside the bounds", sig + ":out-of-bounds")
        bad = [j for j in range(ns) if not close(Xmin[j], mins[j], rngw[j], RT) or not close(Xmax[j], maxs[j], rngw[j], RT)]
        if bad:
            R.failB(dict(pub, impl=[Xmin, Xmax], model=[mins, maxs], candidates=ev),
                    "reported range of sources %s is not the exact extent: min=%s max=%s, exact min=%s max=%s" % (bad, Xmin.tolist(), Xmax.tolist(), [float(v) for v in mins], [float(v) for v in maxs]),
                    sig + ":wrong-extent")
        if "_batch" in c:
            stb, ob = c["_batch"]
            if stb != "ok":
                R.failB(dict(pub, impl_error=ob), "a batch of in-gamut targets (each accepted on its own) raised %s: %s" % (stb, ob), sig + ":batch-raises:" + stb)
            else:
                badb = [j for j in range(ns) if not close(ob[0][j], mins[j], rngw[j], RT) or not close(ob[1][j], maxs[j], rngw[j], RT)]
                if badb:
                    R.failB(dict(pub, impl_batch_row=[ob[0], ob[1]], model=[mins, maxs]),
                            "batch call: reported range of sources %s is not the exact extent: min=%s max=%s, exact min=%s max=%s" % (badb, ob[0].tolist(), ob[1].tolist(), [float(v) for v in mins], [float(v) for v in maxs]),
                            sig + ":wrong-extent:batch")
        if "_obatch" in c:
            ob = c["_obatch"]; pubb = dict(pub, k=ob["sys"], batch=ob["B"], batch_row=ob["row"], batch_error=ob["error"], batch_n=ob["n"])
            if ob["st"] == "ok":
                badb = [j for j in range(ns) if not close(ob["lo"][j], mins[j], rngw[j], RT) or not close(ob["hi"][j], maxs[j], rngw[j], RT)]
                if badb:
                    R.failB(dict(pubb, impl_batch_row=[ob["lo"], ob["hi"]], model=[mins, maxs]),
                            "mixed batch (out-of-gamut rows, error=%r): reported range of sources %s of a strictly-inside row is not the exact extent: min=%s max=%s, exact min=%s max=%s" % (ob["error"], badb, ob["lo"].tolist(), ob["hi"].tolist(), [float(v) for v in mins], [float(v) for v in maxs]),
                            sig + ":wrong-extent:mixed-batch")
                if ob["n"] is not None:
                    judge_spaced(R, dict(pubb, n_spaced=ob["n"]), S, ob["spaced"], bprime, sig, where=":mixed-batch")
        # the generating intensities lie between the ends
        if x is not None and (np.any(x < Xmin - 1e-9 * rngw) or np.any(x > Xmax + 1e-9 * rngw)):
            R.failB(dict(pub, impl=[Xmin, Xmax], solution=x), "a solution reproducing the target lies outside the reported range", sig + ":solution-outside-range")
        # spaced solutions (the clause is judged in judge_spaced; non-finite entries are a failure, not a silent pass)
        judge_spaced(R, pub, S, out[2], bprime, sig)
        if "_batch_spaced" in c:
            judge_spaced(R, dict(pub, n_spaced=c["_batch_n"]), S, c["_batch_spaced"], bprime, sig, where=":batch")
