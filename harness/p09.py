"""C09 — variance minimisation keeps the fit quality and minimises capture variance."""
import numpy as np
from fractions import Fraction
from common import F, rs, vs, ms, dyadic, close, call, parse_rat, as_given
from systems import gen_A, gen_K, gen_baseline, apply_K
from fitlib import K_text, ub_text, parse_prep, certify_rows, fsqrt
from certlib import dual_hints, cert_args_text


def common_domain_exact(domains):
    """the documented common domain of several grids (C19, model Dreye.equalize), in exact arithmetic: from the largest minimum to the
    smallest maximum, round-half-even((hi - lo) / coarsest mean step) equal intervals"""
    ds = [[F(v) for v in d] for d in domains]
    lo = max(min(d) for d in ds); hi = min(max(d) for d in ds)
    step = max((max(d) - min(d)) / (len(d) - 1) for d in ds)
    k = int(round((hi - lo) / step))         # round() of a Fraction rounds half to even
    return [lo + i * (hi - lo) / k for i in range(k)] + [hi]


def interp_exact(xs, ys, t):
    """linear interpolation of the tabulated function (xs ascending) at t, 0 outside the table"""
    if t < xs[0] or t > xs[-1]:
        return F(0)
    for i in range(len(xs) - 1):
        if t <= xs[i + 1]:
            return ys[i] + (ys[i + 1] - ys[i]) / (xs[i + 1] - xs[i]) * (t - xs[i])
    return ys[-1]


def trapz_exact(dom, y):
    return sum((dom[i + 1] - dom[i]) * (y[i] + y[i + 1]) / 2 for i in range(len(dom) - 1))


def gen_foreign_domain(drng, A, nf, ns):
    """a system whose sources are measured on their OWN wavelength grid (register_system(sources, domain=...)): filters (and their
    uncertainty) are tabulated on a uniform grid x0 + d_f * i, the sources on a grid of step r * d_f (r = 1: as fine, r = 2: coarser)
    that is shifted against the filter grid by t * d_f (t = 1/4, 1/2, 3/4), so that every point of the common domain lies strictly
    BETWEEN two filter grid points. Source k is a narrow line (one grid point, height 1 / step) between the filter grid points
    i_k and i_k + 1, where the filters take the value A[:, k] on both: the capture matrix of the registered system is then exactly
    the intended A (all data dyadic: interpolation and the trapezoid sums are exact in floating point). Elsewhere the filters take
    random values. Returns the grids, the index brackets and the arrays."""
    d_f = float(drng.choice([0.5, 1.0, 2.0, 4.0])); r = int(drng.integers(1, 3)); t = float(drng.choice([0.25, 0.5, 0.75]))
    x0 = float(drng.integers(300, 401))
    gap = 2 if r == 1 else 1
    js = [1 + int(drng.integers(0, 2))]
    for _ in range(ns - 1):
        js.append(js[-1] + gap + int(drng.integers(0, 2)))
    Ns = js[-1] + 2 + int(drng.integers(0, 2))
    Nf = r * (Ns - 1) + 2 + int(drng.integers(0, 3))
    Df = x0 + d_f * np.arange(Nf); Ds = x0 + t * d_f + r * d_f * np.arange(Ns)
    filt = dyadic(drng, 0.25, 3, 2, size=(nf, Nf))
    src = np.zeros((ns, Ns))
    br = []
    for k_, j in enumerate(js):
        i = j * r
        filt[:, i] = A[:, k_]; filt[:, i + 1] = A[:, k_]
        src[k_, j] = 1.0 / (r * d_f)
        br.append(i)
    return dict(d_f=d_f, ratio=r, shift=t, Df=Df, Ds=Ds, filt=filt, src=src, brackets=br, lines=js)


def run(R):
    import dreye
    from dreye.api.optimize.lsq_linear import lsq_linear, lsq_linear_minimize
    nsys = 10 if R.tier == "quick" else 150
    R.rule = ("systems 2-4 receptors with 0-3 surplus sources (exactly determined included), finite ub, lb zero/positive, K "
              "none/scalar/vector/matrix, baseline, weights; in- and out-of-gamut targets; variance matrices: default "
              "('heteroscedastic' = squared transformed capture matrix), explicit (propagated through K squared), derived from a "
              "registered filter uncertainty (estimator; given as standard deviations (2-D) or as SAMPLES of the filter functions (3-D, 2-8 samples, spreads from "
              "2^-4 down to 2^-12 per source/filter pair, every source with at least one coarse pair; float/Fortran/strided array); the estimator's matrix must then be the "
              "population variance of the sampled captures, entry by entry to 1e-10 relative); explicit matrices reach the code as an argument of lsq_linear_minimize, registered with "
              "register_system(Epsilon=) or passed to minimize_variance(Epsilon=), as float/whole-number integer/Fortran/strided arrays; the default as None, "
              "the string 'heteroscedastic' or the estimator's default. Histories: ONE estimator (and one caller-held variance array) per system, the "
              "inside and the outside target are fitted one after the other on it and every predicate is evaluated on every call against the "
              "variance VALUES registered at the start (stratified: every block of 5 systems has a matrix-K/default and a non-uniform-vector-K/"
              "array-valued system, a system with sampled filter functions, and a system whose variance model derives from standard deviations while its sources are "
              "measured on their own grid); registered state and arguments must be unchanged after each call. Registration on TWO grids (that stratum and a third of the other estimator systems): the receptors (filters, "
              "standard deviations / sampled filter functions) are tabulated on a uniform wavelength grid (step 1/2..4), the sources are registered afterwards with register_system(sources, domain=) on "
              "a grid of the same or the double step shifted by 1/4, 1/2 or 3/4 of the filter step (grids as float / integer dtype when whole / strided / list), so that every point "
              "of the common domain lies between two filter grid points; the sources are single-point lines placed where the filters are locally constant, so the capture matrix is "
              "exactly the intended one (checked), while the standard deviations vary freely: the estimator's default variance model must then be the capture, on the common domain "
              "(C19), of the squared linearly-interpolated registered standard deviation by the squared source (exact arithmetic; the Lean models equalize + capture must give the same "
              "matrix exactly), entry by entry to 1e-10 relative. With and without an L1 request. Half of the systems get one more call with an L1 request that provably CANNOT be met "
              "(beyond sum(ub) / below sum(lb) / exactly determined system: within the bounds but farther from the total the in-gamut target dictates than the fit tolerance allows), alone (float or array) "
              "or in one call with an attainable request for a second row (array or list, batch_size 1/2/'full'): the call may refuse (raise; registered state unchanged), but whatever it RETURNS must be "
              "in bounds with every row's total inside its L1 window. Two thirds of the systems get one more call at the end of the history: all targets "
              "(plus possibly a third one) in ONE call with batch_size 2, 3 or 'full' (batches that divide the rows, a padded last batch, a batch larger than the row count; "
              "in- and out-of-gamut rows share a batch; one l2_eps, L1 none or one request per row; Fortran/strided target arrays) -- every row of the answer is judged like a single call. Every other underdetermined system ends its history with a BRIGHTNESS SERIES: the same in-gamut target listed 2-3 times in one call, every row with its own L1 request "
              "(array or list; the requests spread over the totals the target admits within the bounds, at least 0.05 apart; batch_size 1, 2 or 'full'); every row is judged like a single call with its own request. For every row: the attainable error is the "
              "exact bounded-LS optimum (Lean-verified KKT); dreye's answer must stay within l2_eps of it, inside the L1 window, "
              "report B_var = eps x^2 exactly, and carry a certificate var(x) <= var(y) + delta for EVERY y of the second-stage set "
              "(theorem minvar_opt_of_cert). Non-trivial: every row (the variance objective is never trivially optimal).")
    jobs = []
    rows1 = []
    fdchecks = []
    for si in range(nsys):
        rng = R.rng(1, si)
        strat = si % 5       # stratification: 0 = matrix K / default model, 1 = non-uniform vector K / array-valued model, 3 = sampled filter uncertainty, others random
        nf = int(rng.integers(2, 5)); ns = nf + int(rng.integers(0, 4))
        A = gen_A(rng, nf, ns, lo=0.25, hi=3.0, bits=2)
        kk, K = gen_K(rng, nf, kinds=(("matrix",) if strat == 0 else ("vector",) if strat == 1 else ("none", "scalar", "vector", "matrix")))
        if kk == "vector" and strat == 1:
            while np.all(K == K[0]):
                K = dyadic(rng, 0.5, 2, 2, size=nf)
        bk, base = gen_baseline(rng, nf)
        lb = np.zeros(ns) if rng.integers(2) else dyadic(rng, 0.0625, 0.25, 4, size=ns)
        ub = lb + dyadic(rng, 1, 3, 2, size=ns)
        Ap, bp = apply_K(A, K, base)
        w = None if rng.integers(2) else dyadic(rng, 0.5, 2, 2, size=nf)
        wv = np.ones(nf) if w is None else w
        ek = "default" if strat == 0 else str(rng.choice(["explicit", "uncertainty"] if strat == 1 else ["default", "explicit", "uncertainty"]))
        if strat in (2, 3):
            ek = "uncertainty"      # stratification: every block of 5 systems has one whose variance model comes from sampled filter functions (3)
                                    # and one whose model comes from a standard deviation while the sources are measured on their own grid (2)
        # sources measured on their OWN wavelength grid (own random stream): a third of the estimator systems and every system of stratum 2
        drng = R.rng(5, si)
        fd_draw = bool(drng.integers(3) == 0) or strat == 2
        fd = None
        Eps = None          # pristine VALUES of the variance matrix (what the model sees); never handed to the implementation
        Eps_given = None    # the caller's array: the same object is handed to every call of this system's history
        sigf = None
        via = "function"; route = "none"
        filt = np.hstack([np.zeros((nf, 1)), A, np.zeros((nf, 1))]); src = np.hstack([np.zeros((ns, 1)), np.eye(ns), np.zeros((ns, 1))])
        if ek == "explicit":
            # whole-number variances now and then (so that an integer-dtype matrix is a legitimate representation)
            Eps = dyadic(rng, 1, 4, 0, size=(nf, ns)) if rng.integers(4) == 0 else dyadic(rng, 0.125, 2, 3, size=(nf, ns))
            Eps_given = as_given(rng, Eps.copy(), R, "Epsilon", kinds=("same", "int", "fortran", "strided"))
            route = str(rng.choice(["array", "registered", "argument"]))
            via = "function" if route == "array" else "estimator"
        elif ek == "default":
            if si % 2 == 0 or strat == 0:
                via = "estimator"; route = "estimator-default"
            else:
                route = str(rng.choice(["none", "string"]))
        elif ek == "uncertainty":
            via = "estimator"; route = "uncertainty"
            sigf = np.hstack([np.zeros((nf, 1)), dyadic(rng, 0.125, 1, 3, size=(nf, ns)), np.zeros((nf, 1))])   # std of the filters
            Eps = (sigf[:, 1:-1] ** 2)        # capture of sigma_f^2 x source^2 with unit sources: entry (c,k) = sigma_ck^2
            # the other documented form of filters_uncertainty: SAMPLES of the filter functions (n_samples x n_filters x n_domain); the variance
            # model is the (population) variance over the samples of the capture of every source by every filter. Own random stream.
            urng = R.rng(4, si)
            u_ = urng.integers(2)
            samples_route = strat == 3 or bool(u_ and strat != 2)
            if fd_draw:
                fd = gen_foreign_domain(drng, A, nf, ns)
            if fd is not None and not samples_route:
                # standard deviations tabulated on the filter grid. The documented model: the registered function sigma_f (linear between
                # its grid points, exactly like the filters for the capture matrix) squared, times the squared source, integrated over
                # the common domain (C19) - evaluated here in exact arithmetic; the Lean model (equalize + capture) is asked for the
                # same matrix below and must agree exactly
                sigf = dyadic(drng, 0.125, 1, 3, size=(nf, len(fd["Df"])))
                dom_ = common_domain_exact([fd["Df"], fd["Ds"]])
                DfF = [F(v) for v in fd["Df"]]; DsF = [F(v) for v in fd["Ds"]]
                sig_i = [[interp_exact(DfF, [F(v) for v in row], t_) for t_ in dom_] for row in sigf]
                src_i = [[interp_exact(DsF, [F(v) for v in row], t_) for t_ in dom_] for row in fd["src"]]
                EpsF = [[trapz_exact(dom_, [a_ * a_ * b_ * b_ for a_, b_ in zip(sr, sc_)]) for sc_ in src_i] for sr in sig_i]
                Eps = np.array([[float(v) for v in row] for row in EpsF])
                fd["sigma"] = sigf
            if samples_route:
                route = "uncertainty-samples"
                S = int(urng.integers(2, 9))
                kexp = urng.integers(4, 13, size=(nf, ns))                 # spread of pair (c,k): 2^-kexp (filters known coarsely ... very precisely)
                for kk_ in range(ns):
                    kexp[int(urng.integers(nf)), kk_] = int(urng.integers(4, 6))     # every source has a coarse pair: the objective stays well scaled
                z = urng.integers(-3, 4, size=(S, nf, ns)).astype(float)
                z[0] = urng.integers(1, 4, size=(nf, ns)); z[1] = -urng.integers(1, 4, size=(nf, ns))    # no pair without spread
                samp = A[None] + z * 2.0 ** (-kexp.astype(float))[None]    # exactly representable, positive (A >= 1/4, |deviation| <= 3/16)
                sampF = [[[F(v) for v in samp[:, c_, k_]] for k_ in range(ns)] for c_ in range(nf)]
                Eps = np.array([[float(sum((v - sum(col) / S) ** 2 for v in col) / S) for col in row] for row in sampF])   # exact variance, rounded once
                if fd is not None:
                    # the sampled filter functions on the filter grid: every sample takes its value samp[:, :, k] on both grid points around line k
                    full = fd["filt"][None] + drng.integers(-3, 4, size=(S, nf, len(fd["Df"]))).astype(float) / 16.0
                    for k_, i_ in enumerate(fd["brackets"]):
                        full[:, :, i_] = samp[:, :, k_]; full[:, :, i_ + 1] = samp[:, :, k_]
                else:
                    full = np.concatenate([np.zeros((S, nf, 1)), samp, np.zeros((S, nf, 1))], axis=2)
                sigf = as_given(urng, full, R, "filters_uncertainty", kinds=("same", "fortran", "strided"))
                R.count("uncertainty samples:%d" % S)
                R.count("uncertainty samples, smallest spread:2^-%d" % int(kexp.max()))
        if via == "estimator" and fd_draw and fd is None:
            fd = gen_foreign_domain(drng, A, nf, ns)
        R.count("sources registered on:%s" % ("no estimator" if via != "estimator" else "the filters' scalar-step domain" if fd is None else
                                              "their own grid (step x%d, shifted by %g of the filter step)" % (fd["ratio"], fd["shift"])))
        A_given = as_given(rng, A.copy(), R, "A", kinds=("same", "fortran", "strided")) if via == "function" else A
        targets = ["inside", "outside"]
        keys = ["s%d_%s" % (si, tk) for tk in targets]
        # last step of the history (two thirds of the systems): ALL targets, and possibly a third one, in ONE call with batch_size > 1
        # (own random stream). The rows of a batch are separate problems: every row of the answer is judged like a single call.
        brng = R.rng(3, si)
        batched = bool(brng.integers(3) > 0)
        btargets = (targets + {"none": [], "inside": ["inside"], "outside": ["outside"]}[str(brng.choice(["none", "inside", "outside"]))]) if batched else []
        border = [int(j) for j in brng.permutation(len(btargets))]      # row j of the batch is target border[j]
        bkeys = ["s%d_b%d" % (si, j) for j in range(len(btargets))]
        ukey = "s%d_u" % si
        srng = R.rng(8, si)           # stream of the brightness series (last step of the history, see below)
        nrep = int(srng.integers(2, 4))
        skeys = ["s%d_r%d" % (si, j) for j in range(nrep)]
        if not any(R.want(k) for k in keys + bkeys + [ukey] + skeys):
            continue
        # ONE estimator (and one caller-held variance array) per system: the targets are fitted one after the other on it,
        # as a user's session would; the property has to hold for every call of such a history, not only for the first
        est = None; stE = "ok"; outE = None
        fd_pub = None if fd is None else dict(filter_domain=fd["Df"], sources_domain=fd["Ds"], filters=fd["filt"], sources=fd["src"],
                                              filters_uncertainty=(np.asarray(sigf) if sigf is not None else None))
        if via == "estimator" and fd is not None:
            # two-step registration: the receptors with their grid, then the sources with THEIR grid (the grids in a representation of their own:
            # whole-number wavelengths may come with an integer dtype, as a list, as a strided view)
            Df_g = as_given(drng, fd["Df"], R, "filter domain", kinds=("same", "int", "strided", "list"))
            Ds_g = as_given(drng, fd["Ds"], R, "sources domain", kinds=("same", "int", "strided", "list"))
            stE, est = call(dreye.ReceptorEstimator, fd["filt"], domain=Df_g, filters_uncertainty=sigf, K=(1.0 if K is None else K), baseline=base,
                            w=(1.0 if w is None else w))
            if stE == "ok":
                stE, outE = call(est.register_system, fd["src"], domain=Ds_g, lb=lb, ub=ub, **(dict(Epsilon=Eps_given) if route == "registered" else {}))
                if stE == "ok":
                    outE = None
                    if not np.array_equal(np.asarray(est.A, dtype=float), A):
                        R.failA(dict(k="s%d" % si, A=A, estimator_A=np.asarray(est.A, dtype=float), foreign_domain=fd),
                                "the capture matrix of the system registered on its own grid is not the intended A (capture of interpolated filters and sources)")
                    fdchecks.append((si, fd, A, (Eps if "sigma" in fd else None)))
            else:
                outE, est = est, None
        elif via == "estimator":
            stE, est = call(dreye.ReceptorEstimator, filt, domain=1.0, filters_uncertainty=sigf, K=(1.0 if K is None else K), baseline=base,
                            w=(1.0 if w is None else w), sources=src, lb=lb, ub=ub)
            if stE == "ok" and route == "registered":
                stE, outE = call(est.register_system, src, lb=lb, ub=ub, Epsilon=Eps_given)
                if stE == "ok":
                    outE = None
            elif stE != "ok":
                outE, est = est, None

        def add_job(c, st, out, b, st0=None, out0=None):
            k = c["k"]
            for key in ("target", "K_kind", "baseline_kind", "eps_kind", "eps_route", "via", "call_index"):
                R.count("%s:%s" % (key, c[key]))
            R.count("L1:%s" % (c["L1"] is not None)); R.count("shape:%s" % ("under" if ns > nf else "exact"))
            if kk == "vector":
                R.count("K_vector:%s" % ("uniform" if np.all(K == K[0]) else "nonuniform"))
            if Eps is not None and kk == "vector" and not np.all(K == K[0]) and c["call_index"] > 0:
                R.count("repeated call with array-valued variance model and non-uniform vector K")
            if st0 is None:
                st0, out0 = call(lsq_linear, A, b[None], lb=lb, ub=ub, W=w, K=K, baseline=base, return_pred=True)
            if Eps is None:
                R.driver.ask("E" + k, "epsmodel", ns, K_text(K), ms(A), "hetero")
            else:
                R.driver.ask("E" + k, "epsmodel", ns, K_text(K), ms(A), "explicit", ms(Eps))
            job = dict(c=c, st=st, out=out, st0=st0, out0=out0, Ap=Ap, bp=bp, wv=wv)
            jobs.append(job)
            if st0 == "ok":
                rows1.append(dict(job=job, n=ns, K=K, A=A, baseline=base, w=wv, b=b, lb=lb, ub=ub, xhat=np.asarray(out0[0])[0]))

        def gen_row(ti, tk):
            rr = R.rng(2, si, ti)
            xt = lb + dyadic(rr, 0.25, 0.75, 3, size=ns) * (ub - lb)
            b = Ap @ xt + bp
            if tk == "outside":
                b = b * dyadic(rr, 0.5, 3, 1, size=nf) + 1.0
            return rr, xt, b

        l1eps = 1e-2
        rows_of = {}
        for ti, tk in enumerate(targets):
            k = keys[ti]
            rr, xt, b = gen_row(ti, tk)
            rows_of[ti] = (xt, b)
            l2eps = float(rr.choice([1e-4, 1e-3, 1e-2, 5e-2]))
            useL1 = bool(rr.integers(3) == 0) and tk == "inside"
            L1 = float(np.sum(xt)) if useL1 else None
            c = dict(k=k, target=tk, nf=nf, ns=ns, A=A, K=K, K_kind=kk, baseline=base, baseline_kind=bk, lb=lb, ub=ub, w=w, b=b, eps_kind=ek,
                     Epsilon=Eps, eps_route=route, l2_eps=l2eps, L1=L1, l1_eps=l1eps, via=via, call_index=ti, earlier_calls=keys[:ti])
            if fd is not None:
                c["registered_on_two_grids"] = fd_pub
            # the implementation is run for every step of the history (also when only a later step is selected by --case)
            if via == "estimator":
                if stE != "ok":
                    st, out = stE, outE
                else:
                    kw = dict(Epsilon=Eps_given) if route == "argument" else {}
                    st, out = call(est.minimize_variance, b[None], l2_eps=l2eps, L1=L1, l1_eps=l1eps, **kw)
                    if st == "ok" and route in ("uncertainty", "uncertainty-samples", "registered"):
                        c["estimator_Epsilon"] = np.array(est.Epsilon, dtype=float)
            else:
                ea = "heteroscedastic" if route == "string" else Eps_given
                st, out = call(lsq_linear_minimize, A_given, b[None], ea, lb=lb, ub=ub, W=w, K=K, baseline=base, l2_eps=l2eps, L1=L1, l1_eps=l1eps, return_pred=True)
            if not R.want(k):
                continue
            add_job(c, st, out, b)
        # ---- a total-intensity request that CANNOT be met (half of the systems, own random stream): one more call on the same estimator /
        # arrays with an L1 request that no in-bound intensities of the required fit quality reach - beyond the bounds (L1 > sum(ub) + l1_eps),
        # below them (L1 < sum(lb) - l1_eps, positive lower bounds) or, for exactly determined systems, within the bounds but farther from the
        # total the in-gamut target dictates than the fit tolerance allows (|sum x - sum x_t| <= sqrt(n) (l2_eps + attainable error) / sigma_min(W A'),
        # granted four times over). Alone, or in one call with an attainable request for another row (batch_size 1, 2 or 'full'). The property speaks
        # about what is RETURNED: a refusal (any raised error: loud) is fine and leaves the registered state unchanged (frame condition of `call`);
        # returned intensities must be in bounds and have, row by row, the requested total within l1_eps.
        urq = R.rng(6, si)
        if bool(urq.integers(2)) and R.want(ukey):
            xt0, b0 = rows_of[0]
            sl, su, sx = float(np.sum(lb)), float(np.sum(ub)), float(np.sum(xt0))
            l2u = float(urq.choice([1e-4, 1e-3, 1e-2]))
            ukind = str(urq.choice(["beyond the bounds", "below the bounds", "within the bounds"]))
            Lbad = None
            if ukind == "within the bounds" and ns == nf:
                smin = float(np.linalg.svd(wv[:, None] * Ap, compute_uv=False)[-1])
                d_ = l1eps + 4 * np.sqrt(ns) * (l2u + 1e-3) / smin + 0.0625
                cands = [v for v in (sx + d_, sx - d_) if sl + 0.0625 < v < su - 0.0625]
                if cands:
                    Lbad = float(cands[int(urq.integers(len(cands)))])
            if ukind == "below the bounds" and sl / 2 > l1eps + 0.03:
                Lbad = sl / 2
            if Lbad is None:
                ukind = "beyond the bounds"; Lbad = su + l1eps + float(dyadic(urq, 0.25, 1, 2))
            two = bool(urq.integers(2))
            if two:
                first = bool(urq.integers(2))
                Bu = np.array([b0, b0]); L1u = np.array([Lbad, sx] if first else [sx, Lbad]); bsu = [1, 2, "full"][int(urq.integers(3))]
                L1g = L1u.tolist() if urq.integers(3) == 0 else L1u
            else:
                Bu = b0[None]; L1u = np.array([Lbad]); bsu = 1
                L1g = float(Lbad) if urq.integers(2) else L1u
            R.count("unattainable L1 request:%s" % ukind)
            R.count("unattainable L1 request:%s" % ("alone" if not two else "in one call with an attainable request, batch_size=%s" % bsu))
            bkw_ = {} if bsu == 1 else dict(batch_size=bsu)
            if via == "estimator":
                if stE != "ok":
                    stu, outu = stE, outE
                else:
                    kw = dict(Epsilon=Eps_given) if route == "argument" else {}
                    stu, outu = call(est.minimize_variance, Bu, l2_eps=l2u, L1=L1g, l1_eps=l1eps, **bkw_, **kw)
            else:
                ea = "heteroscedastic" if route == "string" else Eps_given
                stu, outu = call(lsq_linear_minimize, A_given, Bu, ea, lb=lb, ub=ub, W=w, K=K, baseline=base, l2_eps=l2u, L1=L1g, l1_eps=l1eps, return_pred=True, **bkw_)
            cu = dict(k=ukey, target="inside", nf=nf, ns=ns, A=A, K=K, K_kind=kk, baseline=base, baseline_kind=bk, lb=lb, ub=ub, w=w, B=Bu, eps_kind=ek,
                      Epsilon=Eps, eps_route=route, l2_eps=l2u, L1=L1u, l1_eps=l1eps, via=via, call_index=len(targets), earlier_calls=keys,
                      unattainable=dict(kind=ukind, request=Lbad, total_dictated_by_the_target=sx, sum_lb=sl, sum_ub=su, batch_size=bsu))
            if fd is not None:
                cu["registered_on_two_grids"] = fd_pub
            R.case(cu, (ukey,), sample=False)
            if stu != "ok":
                R.count("unattainable L1 request:refused (%s)" % stu)
            else:
                R.count("unattainable L1 request:returned")
                try:
                    Xu = np.asarray(outu[0], dtype=float).reshape(len(Bu), ns)
                except Exception as e_:  # noqa: BLE001
                    Xu = None
                    R.failB(dict(cu, impl=str(outu)[:200]), "answer to an unattainable L1 request is not an array of intensities: %s" % e_, "C09:unattainable-L1:shape")
                if Xu is not None:
                    if np.any(Xu < lb - 1e-6 * (ub - lb)) or np.any(Xu > ub + 1e-6 * (ub - lb)):
                        R.failB(dict(cu, impl=Xu), "intensities violate the bounds", "C09:unattainable-L1:bounds")
                    tot = Xu.sum(axis=1)
                    if np.any(np.abs(tot - L1u) > l1eps * 1.01 + 1e-7):
                        R.failB(dict(cu, impl=Xu, totals=tot), "returned intensities have total intensity %s, requested %s +- %g (a request that cannot be met with the required "
                                "fit quality may be refused, not ignored)" % (tot.tolist(), L1u.tolist(), l1eps), "C09:unattainable-L1:l1-window")
        # ---- a brightness series (own random stream, every other underdetermined system; LAST step of the history): the SAME in-gamut target
        # listed two or three times in ONE call, every row with its OWN total-intensity request (an array / list with one request per row), the
        # requests spread over the totals the target admits within the bounds (range found with an LP; requests at least 0.05 apart and at least an
        # eighth of the range away from its ends, so that every row's second-stage set is non-empty), batch_size 1, 2 or 'full'. Every row of the
        # answer is judged like a single call with its own request.
        def brightness_series():
            if ns <= nf or si % 2 != 0 or not any(R.want(k_) for k_ in skeys):
                return
            from scipy.optimize import linprog
            xt0, b0 = rows_of[0]
            tot = []
            for sgn in (1.0, -1.0):
                res = linprog(sgn * np.ones(ns), A_eq=Ap, b_eq=b0 - bp, bounds=list(zip(lb, ub)), method="highs")
                tot.append(float(np.sum(res.x)) if res.status == 0 else float(np.sum(xt0)))
            smin, smax = min(tot), max(tot)
            fr = np.sort(srng.permutation(7)[:nrep] + 1) / 8.0
            L1s = np.round((smin + fr * (smax - smin)) * 1024) / 1024
            if srng.integers(2):
                L1s = L1s[::-1].copy()
            distinct = bool(np.min(np.abs(np.diff(L1s))) >= 0.05)
            if not distinct:
                L1s = np.full(nrep, float(np.sum(xt0)))     # the target admits (almost) one total only: the same request for every row
            R.count("brightness series (one target, one L1 request per row):%d rows, %s" % (nrep, "distinct requests" if distinct else "one total attainable"))
            Bs = np.array([b0] * nrep)
            bss = [1, 2, "full"][int(srng.integers(3))]
            l2s = float(srng.choice([1e-4, 1e-3, 1e-2]))
            L1g = L1s.tolist() if srng.integers(3) == 0 else L1s.copy()
            R.count("brightness series:batch_size=%s, L1 as %s" % (bss, "list" if isinstance(L1g, list) else "array"))
            Bsg = as_given(srng, Bs.copy(), R, "B(series)", kinds=("same", "fortran", "strided"))
            bkw_ = {} if bss == 1 else dict(batch_size=bss)
            if via == "estimator":
                if stE != "ok":
                    sts, outs_ = stE, outE
                else:
                    kw = dict(Epsilon=Eps_given) if route == "argument" else {}
                    sts, outs_ = call(est.minimize_variance, Bsg, l2_eps=l2s, L1=L1g, l1_eps=l1eps, **bkw_, **kw)
            else:
                ea = "heteroscedastic" if route == "string" else Eps_given
                sts, outs_ = call(lsq_linear_minimize, A_given, Bsg, ea, lb=lb, ub=ub, W=w, K=K, baseline=base, l2_eps=l2s, L1=L1g, l1_eps=l1eps, return_pred=True, **bkw_)
            if sts == "ok":
                try:
                    outs_ = [np.asarray(o, dtype=float) for o in outs_]
                    if len(outs_) != 3 or outs_[0].shape != (nrep, ns) or outs_[1].shape != (nrep, nf) or outs_[2].shape != (nrep, nf):
                        sts, outs_ = "shape", "answer of the series call has shapes %s for %d rows" % ([o.shape for o in outs_], nrep)
                except Exception as e_:  # noqa: BLE001
                    sts, outs_ = "shape", "answer of the series call is not three arrays: %s" % e_
            fit0 = call(lsq_linear, A, b0[None], lb=lb, ub=ub, W=w, K=K, baseline=base, return_pred=True)
            for j in range(nrep):
                if not R.want(skeys[j]):
                    continue
                cs = dict(k=skeys[j], target="inside", nf=nf, ns=ns, A=A, K=K, K_kind=kk, baseline=base, baseline_kind=bk, lb=lb, ub=ub, w=w, b=b0, eps_kind=ek,
                          Epsilon=Eps, eps_route=route, l2_eps=l2s, L1=float(L1s[j]), l1_eps=l1eps, via=via, call_index=len(targets) + 1, earlier_calls=keys,
                          batch=dict(row=j, rows=nrep, batch_size=bss, layout="brightness series: one target, one L1 request per row", B=Bs, L1=L1s, kinds=["inside"] * nrep,
                                     attainable_totals=[smin, smax]))
                if fd is not None:
                    cs["registered_on_two_grids"] = fd_pub
                if sts == "ok" and via == "estimator" and route in ("uncertainty", "uncertainty-samples", "registered"):
                    cs["estimator_Epsilon"] = np.array(est.Epsilon, dtype=float)
                add_job(cs, sts, (tuple(o[j:j + 1] for o in outs_) if sts == "ok" else outs_), b0, *fit0)

        if not batched or not any(R.want(k) for k in bkeys):
            brightness_series()
            continue
        # ---- the batched call
        nb = len(btargets)
        for ti in range(len(targets), nb):
            rows_of[ti] = gen_row(ti, btargets[ti])[1:]
        Ball = np.array([rows_of[t][1] for t in border])
        bs = [2, 3, "full"][int(brng.integers(3))]
        bsn = nb if bs == "full" else bs
        layout = "batches divide the rows" if nb % bsn == 0 else ("batch larger than the row count" if bsn > nb else "padded last batch")
        l2eps = float(brng.choice([1e-4, 1e-3, 1e-2, 5e-2]))
        # ordinary fit of every row (one row at a time): reference for the predicates, and the total intensity requested for an out-of-gamut row
        fits0 = [call(lsq_linear, A, Ball[j][None], lb=lb, ub=ub, W=w, K=K, baseline=base, return_pred=True) for j in range(nb)]
        L1arr = None
        if brng.integers(3) == 0 and all(f[0] == "ok" for f in fits0):
            # one request per row: the total of the generating intensities (in-gamut rows) / of the ordinary fit (out-of-gamut rows), so that
            # every row's second-stage set is non-empty
            L1arr = np.array([float(np.sum(rows_of[t][0])) if btargets[t] == "inside" else float(np.sum(np.clip(np.asarray(fits0[j][1][0])[0], lb, ub))) for j, t in enumerate(border)])
        Bg = as_given(brng, Ball.copy(), R, "B(batch)", kinds=("same", "fortran", "strided"))
        R.count("batched call:%d rows, batch_size=%s" % (nb, bs)); R.count("batched call:%s" % layout)
        R.count("batched call:%s" % ("in- and out-of-gamut rows share a batch" if bsn > 1 and any(len({btargets[t] for t in border[i:i + bsn]}) > 1 for i in range(0, nb, bsn)) else "batches of one kind"))
        R.count("batched call, L1:%s" % ("none" if L1arr is None else "one request per row"))
        if via == "estimator":
            if stE != "ok":
                st, out = stE, outE
            else:
                kw = dict(Epsilon=Eps_given) if route == "argument" else {}
                st, out = call(est.minimize_variance, Bg, batch_size=bs, l2_eps=l2eps, L1=L1arr, l1_eps=l1eps, **kw)
        else:
            ea = "heteroscedastic" if route == "string" else Eps_given
            st, out = call(lsq_linear_minimize, A_given, Bg, ea, lb=lb, ub=ub, W=w, K=K, baseline=base, l2_eps=l2eps, L1=L1arr, l1_eps=l1eps, batch_size=bs, return_pred=True)
        if st == "ok":
            try:
                outs = [np.asarray(o, dtype=float) for o in out]
                if len(outs) != 3 or outs[0].shape != (nb, ns) or outs[1].shape != (nb, nf) or outs[2].shape != (nb, nf):
                    st, out = "shape", "answer of the batched call has shapes %s for %d rows" % ([o.shape for o in outs], nb)
            except Exception as e_:  # noqa: BLE001
                st, out = "shape", "answer of the batched call is not three arrays: %s" % e_
        for j, t in enumerate(border):
            k = bkeys[j]
            if not R.want(k):
                continue
            c = dict(k=k, target=btargets[t], nf=nf, ns=ns, A=A, K=K, K_kind=kk, baseline=base, baseline_kind=bk, lb=lb, ub=ub, w=w, b=Ball[j], eps_kind=ek,
                     Epsilon=Eps, eps_route=route, l2_eps=l2eps, L1=(None if L1arr is None else float(L1arr[j])), l1_eps=l1eps, via=via, call_index=len(targets),
                     earlier_calls=keys, batch=dict(row=j, rows=nb, batch_size=bs, layout=layout, B=Ball, L1=L1arr, kinds=[btargets[t_] for t_ in border]))
            if fd is not None:
                c["registered_on_two_grids"] = fd_pub
            if st == "ok" and via == "estimator" and route in ("uncertainty", "uncertainty-samples", "registered"):
                c["estimator_Epsilon"] = np.array(est.Epsilon, dtype=float)
            add_job(c, st, (tuple(o[j:j + 1] for o in outs) if st == "ok" else out), Ball[j], *fits0[j])
        brightness_series()
    # systems registered on two grids: the Lean model of the domain equalisation (C19) interpolates filters / standard deviations / sources
    # onto the common domain ...
    for si_, fd_, A_, Eps_ in fdchecks:
        fa = [list(r_) for r_ in fd_["filt"]] + ([list(r_) for r_ in fd_["sigma"]] if Eps_ is not None else [])
        R.driver.ask("D%d" % si_, "equalize", 0, 0, 2, vs(fd_["Df"]), vs(fd_["Ds"]), 2, " ".join([str(len(fa))] + [vs(r_) for r_ in fa]),
                     " ".join([str(len(fd_["src"]))] + [vs(r_) for r_ in fd_["src"]]))
    certify_rows(R, "c9", rows1)       # exact stage-1 optimum (and driver.run for the eps models)
    for r in rows1:
        r["job"]["stage1"] = r
    # ... and its capture model (C01) integrates: the capture matrix, and the capture of sigma^2 by source^2 (the default variance model)
    for si_, fd_, A_, Eps_ in fdchecks:
        t = R.driver.get("D%d" % si_)
        if t is None or t.tok() != "interp":
            continue
        nd_m = t.vec(); t.nat()
        n0 = t.nat(); a0 = [t.vec() for _ in range(n0)]
        n1 = t.nat(); a1 = [t.vec() for _ in range(n1)]
        nf_ = len(fd_["filt"])
        R.driver.ask("DA%d" % si_, "capture", "grid " + vs(nd_m), ms(a0[:nf_]), ms(a1))
        if Eps_ is not None:
            R.driver.ask("DE%d" % si_, "capture", "grid " + vs(nd_m), ms([[v * v for v in r_] for r_ in a0[nf_:]]), ms([[v * v for v in r_] for r_ in a1]))
    for job in jobs:
        c = job["c"]; k = c["k"]
        if job["st"] != "ok" or "stage1" not in job:
            continue
        t = R.driver.get("E" + k); EpsM = t.mat(); e = t.vec()
        job["EpsM"] = EpsM; job["e"] = e
        s1 = job["stage1"]
        C, d = s1["C"], s1["d"]
        Cf = np.array([[float(v) for v in r_] for r_ in C]); df = np.array([float(v) for v in d])
        xhat = np.asarray(job["out"][0])[0]
        norm_h = float(np.linalg.norm(job["wv"] * (np.asarray(job["out0"][1])[0] - c["b"])))
        eps_c = (c["l2_eps"] + norm_h) * (1 + 1e-9) + 1e-12
        job["eps_c"] = eps_c
        ef = np.array([float(v) for v in e])
        g = 2 * ef * xhat
        n = c["ns"]
        if c["L1"] is not None:
            G = np.vstack([np.ones(n), -np.ones(n)]); h = np.array([c["L1"] + c["l1_eps"], -(c["L1"] - c["l1_eps"])])
        else:
            G = np.zeros((0, n)); h = np.zeros(0)
        hints = dual_hints(g, G, h, Cf, df, eps_c, c["lb"], c["ub"])
        job["nh"] = len(hints)
        for hi, (lam, v, sig) in enumerate(hints):
            R.driver.ask("v%s_%d" % (k, hi), "diagcert", n, vs(e), vs(xhat), cert_args_text(G, h, C, d, eps_c, lam, v, sig, c["lb"], c["ub"]))
        R.driver.ask("b" + k, "capvar", ms(EpsM), vs(xhat))
        if job["st0"] == "ok":
            R.driver.ask("o" + k, "capvar", ms(EpsM), vs(np.asarray(job["out0"][0])[0]))
    R.driver.run()
    for si_, fd_, A_, Eps_ in fdchecks:
        for rid, want, what in (("DA%d" % si_, A_, "capture matrix"), ("DE%d" % si_, Eps_, "default variance model (capture of the squared standard deviation by the squared sources)")):
            if want is None:
                continue
            t = R.driver.get(rid)
            ok = t is not None and t.t and t.t[0] != "ERR"
            if ok:
                m = t.mat()       # sources x filters
                ok = len(m) == want.shape[1] and all(len(r_) == want.shape[0] for r_ in m) and all(m[k_][c_] == F(want[c_, k_]) for k_ in range(want.shape[1]) for c_ in range(want.shape[0]))
            R.cert(ok)
            if not ok:
                R.failA(dict(k="s%d" % si_, foreign_domain=fd_, expected=want), "system registered on two grids: the Lean model (equalize + capture) does not give the harness's %s" % what)
    for job in jobs:
        c = job["c"]; k = c["k"]
        R.case(c, (k,), sample=(c["eps_kind"] != "default"))
        sig = "C09:%s:%s" % (c["eps_kind"], c["target"]) + (":batched" if "batch" in c else "")
        if job["st"] != "ok":
            bt = c.get("batch")
            if bt is not None and bt["layout"] != "batches divide the rows" and bt["L1"] is not None and np.any(c["lb"] > 0) and job["st"] == "runtime":
                # one combination of options, one signature (whatever the variance model / target kind of the row)
                R.failB(dict(c, impl_error=job["out"]), "batched minimize_variance with a padded last batch, an L1 request per row and positive lower bounds raised %s: %s" % (job["st"], job["out"]),
                        "C09:batched:padded-last-batch+L1+positive-lb:raises:runtime"); continue
            if bt is not None:
                # the batched call raised as a whole: one signature for all its rows (whatever their variance model / target kind)
                R.failB(dict(c, impl_error=job["out"]), "batched minimize_variance (%d rows %s, batch_size=%s) raised %s: %s" % (bt["rows"], bt["kinds"], bt["batch_size"], job["st"], job["out"]),
                        "C09:batched:raises:" + job["st"]); continue
            R.failB(dict(c, impl_error=job["out"]), "minimize_variance raised %s: %s" % (job["st"], job["out"]), sig + ":raises:" + job["st"]); continue
        if "stage1" not in job or not job["stage1"]["kkt_ok"]:
            R.failA(c, "attainable error could not be established exactly"); continue
        X, Bp, Bvar = [np.asarray(o)[0] for o in job["out"]]
        rngb = c["ub"] - c["lb"]
        if np.any(X < c["lb"] - 1e-6 * rngb) or np.any(X > c["ub"] + 1e-6 * rngb):
            R.failB(dict(c, impl=X), "intensities violate the bounds", sig + ":bounds")
        if np.max(np.abs(Bp - (job["Ap"] @ X + job["bp"]))) > 1e-9 * (np.max(np.abs(Bp)) + 1):
            R.failB(dict(c, impl=[X, Bp]), "returned prediction is not the model's capture of the returned intensities", sig + ":pred-mismatch")
        wmax = float(np.max(job["wv"]))
        best_err = fsqrt(job["stage1"]["fstar"])
        err = float(np.linalg.norm(job["wv"] * (Bp - c["b"])))
        if err > best_err + c["l2_eps"] + 2e-2 * wmax:
            R.failB(dict(c, impl=[X, Bp], error=err, best=best_err), "capture error %.6g exceeds the best achievable %.6g by more than l2_eps=%g" % (err, best_err, c["l2_eps"]), sig + ":fit-quality")
        if c["L1"] is not None and abs(float(np.sum(X)) - c["L1"]) > c["l1_eps"] * 1.01 + 1e-7:
            R.failB(dict(c, impl=X), "total intensity %.6g misses the requested %.6g +- %g" % (float(np.sum(X)), c["L1"], c["l1_eps"]), sig + ":l1-window")
        t = R.driver.get("b" + k); bvar_m = t.vec(); var_x = t.rat()
        sc = float(max(abs(float(v)) for v in bvar_m)) + 1e-300
        if len(Bvar) != len(bvar_m) or any(not close(a, b_, sc, 1e-10) for a, b_ in zip(Bvar, bvar_m)):
            R.failB(dict(c, impl=Bvar, model=[float(v) for v in bvar_m]), "reported capture variance %s is not the variance model applied to the returned intensities %s" % (Bvar.tolist(), [float(v) for v in bvar_m]), sig + ":bvar")
        if "estimator_Epsilon" in c:
            em = np.array([[float(v) for v in r_] for r_ in job["EpsM"]])
            # the estimator's default model: registered filter uncertainty (before K-propagation: compare the raw matrix)
            # (entry by entry, relative: the variances of different source/filter pairs differ by orders of magnitude and each one weighs its own source)
            if c["estimator_Epsilon"].shape != np.shape(c["Epsilon"]) or np.max(np.abs(c["estimator_Epsilon"] - c["Epsilon"])) > 1e-12 \
                    or np.any(np.abs(c["estimator_Epsilon"] - c["Epsilon"]) > 1e-10 * np.abs(c["Epsilon"]) + 1e-25):
                R.failB(dict(c), "the estimator's variance model after call %d is not the %s" % (c["call_index"] + 1, "registered variance matrix" if c["eps_route"] == "registered"
                        else ("variance of the captures over the registered filter samples" if c["eps_route"] == "uncertainty-samples" else "capture of the registered filter uncertainty")), sig + ":default-eps")
        best = None
        for hi in range(job.get("nh", 0)):
            tt = R.driver.get("v%s_%d" % (k, hi))
            if tt is None:
                continue
            objv = tt.rat(); tok = tt.tok()
            if tok != "none":
                dv = parse_rat(tok)
                best = dv if best is None or dv < best else best
        scale = float(var_x) + 1e-6
        ok = best is not None and float(best) <= 1e-3 * scale
        R.cert(ok)
        if not ok:
            import cvxpy as cp
            y = cp.Variable(c["ns"])
            s1 = job["stage1"]
            Cf = np.array([[float(v) for v in r_] for r_ in s1["C"]]); df = np.array([float(v) for v in s1["d"]]); ef = np.array([float(v) for v in job["e"]])
            cons = [cp.norm2(Cf @ y - df) <= c["l2_eps"] + best_err, y >= c["lb"], y <= c["ub"]]
            if c["L1"] is not None:
                cons += [cp.sum(y) <= c["L1"] + c["l1_eps"], cp.sum(y) >= c["L1"] - c["l1_eps"]]
            try:
                pr = cp.Problem(cp.Minimize(ef @ cp.square(y)), cons); pr.solve(solver="CLARABEL"); better = pr.value
            except Exception:  # noqa: BLE001
                better = None
            if better is not None and float(var_x) - better > 2e-3 * scale:
                R.failB(dict(c, impl=X, variance=float(var_x), better_point=np.asarray(y.value), better_variance=better),
                        "summed capture variance %.6g is not minimal: %.6g is attained by another admissible intensity vector" % (float(var_x), better), sig + ":not-minimal")
            else:
                R.failA(dict(c, delta=None if best is None else float(best)), "variance minimum not certified (delta %s, variance %.6g)" % (None if best is None else float(best), float(var_x)))
        if c["L1"] is None and job["st0"] == "ok":
            var0 = R.driver.get("o" + k); var0.vec(); v0 = var0.rat()
            if float(var_x) > float(v0) * (1 + 1e-3) + 1e-6:
                R.failB(dict(c, variance=float(var_x), ordinary=float(v0)), "summed capture variance %.6g is larger than that of the ordinary fit %.6g" % (float(var_x), float(v0)), sig + ":larger-than-ordinary")
